(* Proofs/PolycoTimeAtProofs.v -- C08, time_at: what the code around the root finder guarantees for EVERY root finder that returns roots.
   (1) whatever time is returned is one at which the prediction equals the requested phase (time_at inverts the prediction);
   (2) a phase that is not strictly between the predictions at the two ends of some validity interval is refused with ValueError
       before any root finding; (3) the first guess is the TMID of the first entry whose end-of-span phase is not below the requested
       phase, and every earlier entry ends below it. *)
From Coq Require Import ZArith QArith Lqa List Bool Lia.
From PB Require Import Model.Polyco Proofs.PolycoProofs Model.PolycoTimeAt.
Import ListNotations.
Open Scope Q_scope.

(* what is assumed of scipy.optimize.root_scalar: the value it returns is a root of the function it was given *)
Definition solver_returns_roots (solver : (Q -> option Q) -> option Q) : Prop :=
  forall f x, solver f = Some x -> exists r, f x = Some r /\ r == 0.

Theorem time_at_inverts solver eps es ph guess t :
  solver_returns_roots solver -> time_at solver eps es ph guess = TaTime t ->
  exists p, predict eps es t = Some p /\ p == ph.
Proof.
  intros HS. unfold time_at.
  destruct (ta_check eps es (intervals eps es) ph) as [[|]|]; try discriminate.
  destruct (match guess with Some g => Some g | None => ta_guess eps es ph end) as [g|]; try discriminate.
  destruct (solver _) as [x|] eqn:E; try discriminate.
  intros H; injection H as <-. destruct (HS _ _ E) as [r [Hr Hz]].
  destruct (predict eps es (g + x)) as [p|]; try discriminate.
  injection Hr as <-. exists p. split; [reflexivity|lra].
Qed.

Lemma Qlt_bool_iff a b : Qlt_bool a b = true <-> a < b.
Proof. unfold Qlt_bool. rewrite negb_true_iff. apply Qle_bool_false. Qed.

Lemma ta_check_true eps es iv ph : ta_check eps es iv ph = Some true ->
  exists a b pa pb, In (a, b) iv /\ predict eps es a = Some pa /\ predict eps es b = Some pb /\ pa < ph < pb.
Proof.
  induction iv as [|[a b] r IH]; cbn [ta_check]; [discriminate|].
  destruct (predict eps es a) as [pa|] eqn:Ea; try discriminate.
  destruct (predict eps es b) as [pb|] eqn:Eb; try discriminate.
  destruct (ta_check eps es r ph) as [c|]; try discriminate.
  intros H; injection H as H. apply orb_true_iff in H. destruct H as [H|H].
  - apply andb_true_iff in H. destruct H as [H1 H2]. apply Qlt_bool_iff in H1. apply Qlt_bool_iff in H2.
    exists a, b, pa, pb. repeat split; try assumption. left; reflexivity.
  - subst c. destruct (IH eq_refl) as (a' & b' & pa' & pb' & Hin & A & B & C).
    exists a', b', pa', pb'. repeat split; try assumption; try apply C. right; exact Hin.
Qed.

(* (2) refusal: without an interval whose end predictions strictly enclose the phase no time is returned, and when all end
   predictions can be evaluated the answer is ValueError *)
Theorem time_at_refuses solver eps es ph guess :
  (forall a b pa pb, In (a, b) (intervals eps es) -> predict eps es a = Some pa -> predict eps es b = Some pb -> ~ (pa < ph < pb)) ->
  forall t, time_at solver eps es ph guess <> TaTime t.
Proof.
  intros H t. unfold time_at.
  destruct (ta_check eps es (intervals eps es) ph) as [[|]|] eqn:E; try discriminate.
  destruct (ta_check_true _ _ _ _ E) as (a & b & pa & pb & Hin & A & B & C). exfalso. exact (H a b pa pb Hin A B C).
Qed.
Theorem time_at_value_error solver eps es ph guess :
  ta_check eps es (intervals eps es) ph = Some false -> time_at solver eps es ph guess = TaValueError.
Proof. intros E. unfold time_at. rewrite E. reflexivity. Qed.

(* (3) the first guess *)
Lemma ta_ph_end_nth eps all es ph l : ta_ph_end eps all es ph = Some l ->
  forall i e, nth_error es i = Some e -> exists p, predict eps all (e_end e) = Some p /\ nth_error l i = Some (p - ph).
Proof.
  revert l. induction es as [|a r IH]; intros l H i e Hi; [destruct i; discriminate|].
  cbn [ta_ph_end] in H. destruct (predict eps all (e_end a)) as [p|] eqn:Ep; try discriminate.
  destruct (ta_ph_end eps all r ph) as [l'|] eqn:El; try discriminate. injection H as <-.
  destruct i as [|i]; cbn [nth_error] in *.
  - injection Hi as <-. exists p. split; [exact Ep|reflexivity].
  - exact (IH l' eq_refl i e Hi).
Qed.

Theorem time_at_first_guess eps es ph g : ta_guess eps es ph = Some g ->
  exists i e p, nth_error es i = Some e /\ g = e_tmid e /\ predict eps es (e_end e) = Some p /\ ph <= p /\
    forall j e', (j < i)%nat -> nth_error es j = Some e' -> exists p', predict eps es (e_end e') = Some p' /\ p' < ph.
Proof.
  unfold ta_guess. destruct (ta_ph_end eps es es ph) as [l|] eqn:El; try discriminate.
  destruct (nth_error es (searchsorted l 0)) as [e|] eqn:En; try discriminate. intros H; injection H as <-.
  destruct (searchsorted_spec l 0 _ eq_refl) as [A B].
  destruct (ta_ph_end_nth _ _ _ _ _ El _ _ En) as [p [Hp Hn]].
  exists (searchsorted l 0), e, p. repeat split; try assumption.
  - specialize (B _ Hn). lra.
  - intros j e' Hj He'. destruct (ta_ph_end_nth _ _ _ _ _ El _ _ He') as [p' [Hp' Hn']].
    exists p'. split; [exact Hp'|]. specialize (A j _ Hj Hn'). lra.
Qed.

(* non-vacuity: a root finder that satisfies the assumption (it tries candidates and returns the first exact root), a two-entry
   predictor, a phase inside the range: the range check passes, the guess is the TMID of the SECOND entry (the first one ends below the
   phase), and the returned time inverts the prediction *)
Definition try_solver (cands : list Q) (f : Q -> option Q) : option Q :=
  find (fun x => match f x with Some r => Qeq_bool r 0 | None => false end) cands.
Lemma try_solver_ok cands : solver_returns_roots (try_solver cands).
Proof.
  intros f x H. unfold try_solver in H. apply find_some in H. destruct H as [_ H].
  destruct (f x) as [r|]; [|discriminate]. exists r. split; [reflexivity|]. apply Qeq_bool_iff. exact H.
Qed.
Definition ex_entries : list entry :=
  [ {| e_tmid := 0; e_span := 100; e_rphase := 0; e_poly := [0; 2] |};
    {| e_tmid := 100; e_span := 100; e_rphase := 200; e_poly := [0; 2] |} ].
Example time_at_example :
  ta_check (1 # 1000) ex_entries (intervals (1 # 1000) ex_entries) 230 = Some true /\
  ta_guess (1 # 1000) ex_entries 230 = Some 100 /\
  time_at (try_solver [1; 15; 7]) (1 # 1000) ex_entries 230 None = TaTime (100 + 15) /\
  predict (1 # 1000) ex_entries (100 + 15) = Some (inject_Z 200 + (0 + (100 + 15 - 100) * (2 + (100 + 15 - 100) * 0))) /\
  time_at (try_solver [1; 15; 7]) (1 # 1000) ex_entries 500 None = TaValueError.
Proof. repeat split; vm_compute; reflexivity. Qed.
