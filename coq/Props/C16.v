(* Props/C16.v -- every signal object satisfies its class contract; copies reproduce it faithfully.  Statements only; the
   per-class tables are the GENERATED class_table (translator T2 reads _req_shape, _req_dtype and the constructor signatures
   from core.py on every run). *)
From Coq Require Import ZArith String List Bool.
From PB Require Import Gen.GenConsts Model.Contract Proofs.ContractProofs Gen.GenContract Proofs.ContractGen.
Import ListNotations.
Open Scope string_scope.

(* whatever any constructor returns satisfies the executable contract WF (the predicate the monitor evaluates on every signal) *)
Theorem C16_invariant : forall c a s, construct c a = Ok s -> WF s = true.
Proof. exact construct_wf. Qed.
(* an object is returned only if NO clause is violated: too few dimensions, wrong fixed axis length, empty sample shape, dtype
   neither allowed nor safely castable, sample_rate / chan_bw not a positive scalar frequency, center_freq not a scalar frequency,
   start_time not a scalar Time or None, meta not a dict or None, freq_align / pol_type outside their sets: each gives ValueError *)
Theorem C16_violations_refused : forall c a s, construct c a = Ok s ->
  exists e, lookup c = Some e /\
  (length (req_shape e) <= length (a_shape a))%nat /\ shape_ok (a_shape a) (req_shape e) = true /\ prodZ (tl (a_shape a)) <> 0%Z /\
  dtype_result (a_dtype a) (req_dtype e) = Some (g_dtype s) /\
  q_positive (a_rate a) = true /\ t_ok (a_start a) = true /\ m_ok (a_meta a) = true /\
  (is_radio c = true -> q_scalar_freq (a_center a) = true /\ align_ok (a_align a) = true /\
                        q_positive (if has_param e "chan_bw" then a_bw a else a_rate a) = true /\
                        (has_param e "pol_type" = true -> pol_ok (a_pol a) = true)).
Proof. exact construct_accepts_only. Qed.
(* like(): signature introspection reproduces every attribute of a well-formed signal *)
Theorem C16_like : forall s, WF s = true -> like s = Ok s.
Proof. exact like_reproduces. Qed.
(* baseband classes are created with chan_bw = sample_rate *)
Theorem C16_baseband : forall c a s e, construct c a = Ok s -> lookup c = Some e -> is_radio c = true ->
  has_param e "chan_bw" = false -> g_bw s = Some (g_rate s).
Proof. exact baseband_bw. Qed.
(* the generated tables say: 4 Stokes, 2 polarisations, float / complex dtype sets, baseband constructors take no chan_bw *)
Theorem C16_tables :
  option_map req_shape (lookup "FullStokesSignal") = Some [0; 0; 4]%Z /\
  option_map req_shape (lookup "DualPolarizationSignal") = Some [0; 0; 2]%Z /\
  option_map req_shape (lookup "Signal") = Some [0]%Z /\ option_map req_shape (lookup "RadioSignal") = Some [0; 0]%Z /\
  option_map req_dtype (lookup "IntensitySignal") = Some ["float64"; "float32"] /\
  option_map req_dtype (lookup "FullStokesSignal") = Some ["float64"; "float32"] /\
  option_map req_dtype (lookup "BasebandSignal") = Some ["complex128"; "complex64"] /\
  option_map req_dtype (lookup "DualPolarizationSignal") = Some ["complex128"; "complex64"] /\
  option_map (fun e => has_param e "chan_bw") (lookup "BasebandSignal") = Some false /\
  option_map (fun e => has_param e "chan_bw") (lookup "DualPolarizationSignal") = Some false /\
  map is_radio ["Signal"; "RadioSignal"; "IntensitySignal"; "FullStokesSignal"; "BasebandSignal"; "DualPolarizationSignal"]
    = [false; true; true; true; true; true] /\
  baseband_ties_chan_bw = true.
Proof. exact table_facts. Qed.

Example C16_witness :
  let q k i := {| q_kind := k; q_id := i |} in
  let a := {| a_shape := [8; 3; 2]%Z; a_dtype := "float32"; a_rate := q QPos 1; a_start := TNone; a_meta := MDict;
              a_center := q QNeg 2; a_bw := q QPos 3; a_align := "top"; a_pol := "linear" |} in
  (match construct "DualPolarizationSignal" a with
   | Ok s => g_dtype s = "complex128" /\ g_align s = Some "center" /\ g_bw s = Some (q QPos 1) /\ WF s = true
   | Err => False end) /\
  construct "FullStokesSignal" a = Err /\ construct "IntensitySignal" a = construct "IntensitySignal" a /\
  construct "DualPolarizationSignal" {| a_shape := [8; 3; 2]%Z; a_dtype := "float32"; a_rate := q QZero 1; a_start := TNone; a_meta := MDict;
              a_center := q QNeg 2; a_bw := q QPos 3; a_align := "top"; a_pol := "linear" |} = Err.
Proof. vm_compute. repeat split; reflexivity. Qed.

(* tie to the source (T16): the validation statements the constructor model transcribes - Signal.__init__ (dimension count, required
   shape, non-empty sample shape, dtype admission with its safe cast, the assignments through the setters) and the setters of
   sample_rate, start_time, meta, center_freq, chan_bw, freq_align (odd-nchan normalisation after the validity test) and pol_type - are
   pinned as syntax trees re-read from core.py on every run (raise messages ignored) *)
Theorem C16_generated_statements :
  gen_Signal_init_as_modelled = true /\ gen_Signal_sample_rate_setter_as_modelled = true /\
  gen_Signal_start_time_setter_as_modelled = true /\ gen_Signal_meta_setter_as_modelled = true /\
  gen_RadioSignal_center_freq_setter_as_modelled = true /\ gen_RadioSignal_chan_bw_setter_as_modelled = true /\
  gen_RadioSignal_freq_align_setter_as_modelled = true /\ gen_DualPolarizationSignal_pol_type_setter_as_modelled = true.
Proof. exact contract_statements_generated. Qed.

Print Assumptions C16_invariant.
Print Assumptions C16_violations_refused.
Print Assumptions C16_like.
Print Assumptions C16_baseband.
Print Assumptions C16_tables.
