(* Proofs/SnippetProofs.v -- C12 on the ledger: snippet raises exactly on out-of-range requests and
   otherwise returns exactly n samples starting exactly at t0 + t/rate. *)
From Coq Require Import ZArith QArith Qabs Qround Lia Lqa List Bool.
From PB Require Import Lib.PySlice Model.FastLen Model.Ledger Model.Snippet Proofs.LedgerProofs.
Open Scope Z_scope.

Lemma inj_le a b : a <= b -> (inject_Z a <= inject_Z b)%Q.
Proof. intros. unfold Qle; simpl; lia. Qed.
Lemma inj_lt a b : a < b -> (inject_Z a < inject_Z b)%Q.
Proof. intros. unfold Qlt; simpl; lia. Qed.
Lemma inj_le_inv a b : (inject_Z a <= inject_Z b)%Q -> a <= b.
Proof. unfold Qle; simpl; lia. Qed.
Lemma inj_lt_inv a b : (inject_Z a < inject_Z b)%Q -> a < b.
Proof. unfold Qlt; simpl; lia. Qed.

Lemma clip_in len i : 0 <= i <= len -> clip len (Some i) 0 = i /\ clip len (Some i) len = i.
Proof. intros H. unfold clip. destruct (i <? 0) eqn:E1; [lia|]. destruct (len <? i) eqn:E2; [lia|]. split; reflexivity. Qed.

Lemma slice_window l i n :
  0 <= i -> 0 <= n -> i + n <= len l ->
  time_slice l (Some i) (Some (i + n)) None =
  Ok {| t0 := match t0 l with None => None | Some t => Some (t + inject_Z i / rate l)%Q end; rate := rate l; len := n |} i 1.
Proof.
  intros Hi Hn Hle. unfold time_slice.
  assert (E : slice_indices (Some i) (Some (i + n)) None (len l) = Some (clip (len l) (Some i) 0, clip (len l) (Some (i + n)) (len l), 1)) by reflexivity.
  rewrite E. destruct (clip_in (len l) i ltac:(lia)) as [-> _]. destruct (clip_in (len l) (i + n) ltac:(lia)) as [_ ->].
  change (1 <? 1) with false. cbv iota. rewrite range_len_step1. replace (Z.max 0 (i + n - i)) with n by lia. reflexivity.
Qed.

Definition in_range (l : ledger) (t tn : Q) (n : Z) : Prop := 0 <= n /\ (0 <= t)%Q /\ (tn <= inject_Z (len l))%Q.
(* the float sum is never more than 1e-8 below the exact one *)
Definition sum_ok (t tn : Q) (n : Z) : Prop := (t + inject_Z n - tn <= 1 # 100000000)%Q.

Lemma not_tiny s : tiny s = false -> (1 # 100000000 < Qabs s)%Q.
Proof. unfold tiny. intros H. apply Qnot_le_lt. intro C. apply Qle_bool_iff in C. congruence. Qed.
Lemma int_lt_eps a b : (inject_Z a <= inject_Z b + (1 # 100000000))%Q -> a <= b.
Proof. intros H. apply Z.lt_succ_r. apply inj_lt_inv. replace (Z.succ b) with (b + 1) by lia. rewrite inject_Z_plus. change (inject_Z 1) with 1%Q. lra. Qed.

(* shared core: on an in-range request every later step succeeds *)
Lemma snippet_core l t tn n : 0 <= len l -> (0 < rate l)%Q -> sum_ok t tn n -> in_range l t tn n ->
  exists l' fr sh, snippet l t tn n = SOk l' (Qfloor t) fr sh /\
    len l' = n /\ rate l' = rate l /\ (fr == t - inject_Z (Qfloor t))%Q /\ (0 <= fr < 1)%Q /\
    (fr == 0 -> sh = false)%Q /\
    match t0 l, t0 l' with
    | Some a, Some a' => (a' == a + t / rate l)%Q
    | None, None => True
    | _, _ => False end.
Proof.
  intros Hl Hr Hs (En & Ht & Hb). unfold sum_ok in Hs. unfold snippet.
  replace (n <? 0) with false by (symmetry; apply Z.ltb_ge; exact En).
  destruct (Qlt_le_dec t 0) as [Ht'|_]; [lra|].
  destruct (Qlt_le_dec (inject_Z (len l)) tn) as [Hb'|_]; [lra|].
  pose proof (Qfloor_le t) as F1. pose proof (Qlt_floor t) as F2.
  set (i := Qfloor t) in *.
  assert (Hi0 : 0 <= i).
  { apply Z.lt_succ_r. apply inj_lt_inv. replace (Z.succ i) with (i + 1) by lia. change (inject_Z 0) with 0%Q. lra. }
  rewrite inject_Z_plus in F2. change (inject_Z 1) with 1%Q in F2.
  destruct (Qlt_le_dec (inject_Z i) t) as [Hf|Hf].
  - set (new_t0 := match t0 l with None => None | Some a => Some (a - (inject_Z i - t) * (1 / rate l))%Q end).
    assert (Hl1 : exists l1, (if tiny (inject_Z i - t) then {| t0 := new_t0; rate := rate l; len := len l |}
              else match step l (OShiftCrop 0 (-1)) with
                   | Ok l' _ _ => {| t0 := new_t0; rate := rate l; len := len l' |}
                   | Err _ => l end) = l1 /\ i + n <= len l1 /\ t0 l1 = new_t0 /\ rate l1 = rate l).
    { destruct (tiny (inject_Z i - t)) eqn:Et.
      - eexists. split; [reflexivity|]. cbn [len t0 rate]. split; [|split; reflexivity].
        apply int_lt_eps. rewrite inject_Z_plus. lra.
      - apply not_tiny in Et. rewrite Qabs_neg in Et by lra.
        assert (Hin : i + n <= len l - 1).
        { apply Z.lt_le_pred. apply inj_lt_inv. rewrite inject_Z_plus. lra. }
        cbn [step]. rewrite (Z.max_r 0 (len l + -1)) by lia.
        replace (len l + -1) with (0 + (len l - 1)) by lia. rewrite (slice_window l 0 (len l - 1)) by lia.
        eexists. split; [reflexivity|]. cbn [len t0 rate]. repeat split; lia. }
    destruct Hl1 as (l1 & -> & Hl1 & Et & Er). rewrite (slice_window l1 i n Hi0 En Hl1).
    eexists _, _, _. split; [reflexivity|]. cbn [len rate t0]. rewrite Et, Er. unfold new_t0.
    split; [reflexivity|]. split; [reflexivity|]. split; [reflexivity|]. split; [lra|].
    split; [intros E; lra|]. destruct (t0 l) as [a|]; [|exact I]. field. lra.
  - assert (Hin : i + n <= len l).
    { apply int_lt_eps. rewrite inject_Z_plus. lra. }
    rewrite (slice_window l i n Hi0 En Hin).
    eexists _, _, _. split; [reflexivity|]. cbn [len rate t0].
    split; [reflexivity|]. split; [reflexivity|]. split; [lra|]. split; [lra|]. split; [reflexivity|].
    destruct (t0 l) as [a|]; [|exact I]. assert (E : (t == inject_Z i)%Q) by lra. rewrite E. field. lra.
Qed.

Theorem snippet_ok l t tn n : 0 <= len l -> (0 < rate l)%Q -> sum_ok t tn n -> in_range l t tn n ->
  exists l' fr sh, snippet l t tn n = SOk l' (Qfloor t) fr sh /\
    len l' = n /\ rate l' = rate l /\ (fr == t - inject_Z (Qfloor t))%Q /\ (0 <= fr < 1)%Q /\
    (fr == 0 -> sh = false)%Q /\
    match t0 l, t0 l' with
    | Some a, Some a' => (a' == a + t / rate l)%Q
    | None, None => True
    | _, _ => False end.
Proof. exact (snippet_core l t tn n). Qed.

Theorem snippet_errors l t tn n : 0 <= len l -> (0 < rate l)%Q -> sum_ok t tn n ->
  (snippet l t tn n = SErr 1 <-> ~ in_range l t tn n) /\ (forall e, snippet l t tn n = SErr e -> e = 1).
Proof.
  intros Hl Hr Hs.
  assert (D : in_range l t tn n \/ ~ in_range l t tn n).
  { unfold in_range. destruct (Z_le_dec 0 n); [|right; tauto].
    destruct (Qlt_le_dec t 0); [right; intros (_ & H & _); lra|].
    destruct (Qlt_le_dec (inject_Z (len l)) tn); [right; intros (_ & _ & H); lra|]. left. tauto. }
  destruct D as [Hin|Hout].
  - destruct (snippet_core l t tn n Hl Hr Hs Hin) as (l' & fr & sh & E & _). rewrite E.
    split; [split; [discriminate|contradiction]|intros e H; discriminate].
  - assert (E : snippet l t tn n = SErr 1).
    { unfold snippet, in_range in *. destruct (n <? 0) eqn:En; [reflexivity|]. apply Z.ltb_ge in En.
      destruct (Qlt_le_dec t 0); [reflexivity|]. destruct (Qlt_le_dec (inject_Z (len l)) tn); [reflexivity|].
      exfalso. apply Hout. tauto. }
    rewrite E. split; [tauto|intros e H; congruence].
Qed.

(* whole-sample requests are plain slices: bit-identical data (no FFT path), provenance off = t *)
Theorem snippet_whole l (ti : Z) n : 0 <= len l -> 0 <= n -> 0 <= ti -> ti + n <= len l ->
  snippet l (inject_Z ti) (inject_Z (ti + n)) n =
  match step l (OSnippet ti n) with Ok l' off _ => SOk l' off 0 false | Err e => SErr e end.
Proof.
  intros Hl Hn Ht Hb. unfold snippet.
  replace (n <? 0) with false by (symmetry; apply Z.ltb_ge; exact Hn).
  destruct (Qlt_le_dec (inject_Z ti) 0) as [C|_]; [apply (inj_lt_inv ti 0) in C; lia|].
  destruct (Qlt_le_dec (inject_Z (len l)) (inject_Z (ti + n))) as [C|_].
  { apply inj_lt_inv in C. lia. }
  rewrite Qfloor_Z. destruct (Qlt_le_dec (inject_Z ti) (inject_Z ti)) as [C|_]; [lra|].
  cbn [step]. replace ((n <? 0) || (ti <? 0) || (len l <? ti + n)) with false; [reflexivity|].
  symmetry. apply orb_false_intro; [apply orb_false_intro|]; apply Z.ltb_ge; lia.
Qed.

Example snippet_example :
  match snippet {| t0 := Some (100#1); rate := 10#1; len := 64 |} (21#2) (127#2) 53 with
  | SOk l' off fr sh => len l' = 53 /\ off = 10 /\ (fr == 1#2)%Q /\ sh = true /\
      match t0 l' with Some a => (a == (100#1) + (21#20))%Q | None => False end
  | SErr _ => False end.
Proof. vm_compute. repeat split; reflexivity. Qed.
Example snippet_boundary_raises : snippet {| t0 := None; rate := 1; len := 64 |} (21#2) (129#2) 54 = SErr 1.
Proof. vm_compute. reflexivity. Qed.
