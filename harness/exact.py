"""Exact observation of pulsarbat objects (times on the TAI scale as exact rational seconds) and
structured generators of signals shared by the property harnesses."""
from fractions import Fraction
import numpy as np
import astropy.units as u
from astropy.time import Time
import pulsarbat as pb

CLASSES = ['Signal', 'RadioSignal', 'IntensitySignal', 'FullStokesSignal', 'BasebandSignal', 'DualPolarizationSignal']
RADIO = CLASSES[1:]


def sec(t):
    """astropy Time -> exact rational TAI seconds (JD * 86400); None stays None."""
    if t is None:
        return None
    tt = t.tai
    return (Fraction(float(tt.jd1)) + Fraction(float(tt.jd2))) * 86400


def hz(q):
    return Fraction(float(q.to_value(u.Hz)))


def secs(q):
    return Fraction(float(q.to_value(u.s)))


EPOCHS = ['1990-01-01T00:00:00', '2016-12-31T23:59:50', '2017-01-01T00:00:10', '2021-03-04T05:06:07.123456789',
          '2039-12-31T12:00:00', '2015-06-30T23:59:59.5', '2000-02-29T00:00:00.000000001']


def rand_rate(rng):
    r = rng.random()
    if r < 0.25:
        return rng.choice([1e-3, 1.0, 1 / 3, 1.6e9, 5e9, 33.3e3, 1e6, 800e6, 0.1]) * u.Hz
    e = rng.uniform(-3, 9.69)
    v = 10 ** e
    unit = rng.choice([u.Hz, u.kHz, u.MHz, u.GHz])
    return (v * u.Hz).to(unit)


def rand_start(rng):
    if rng.random() < 0.25:
        return None
    t = Time(rng.choice(EPOCHS), format='isot', scale='utc', precision=9)
    return t + rng.random() * rng.choice([0, 1, 1e3, 86400]) * u.s


def sample_shape(rng, cls):
    extra = tuple(rng.choice([1, 2, 3]) for _ in range(rng.choice([0, 0, 1])))
    if cls == 'Signal':
        return tuple(rng.choice([1, 2, 3]) for _ in range(rng.choice([0, 1, 2])))
    nchan = rng.choice([1, 2, 3, 4, 5, 8])
    if cls == 'FullStokesSignal':
        return (nchan, 4) + extra
    if cls == 'DualPolarizationSignal':
        return (nchan, 2) + extra
    return (nchan,) + extra


def dtype_for(cls, rng):
    if cls in ('BasebandSignal', 'DualPolarizationSignal'):
        return np.complex128
    return np.float64


def index_coded(L, sshape, dtype):
    """data[k, ...] = k  (exact in float64/complex128 for k < 2^53)."""
    a = np.arange(L, dtype=np.float64).reshape((L,) + (1,) * len(sshape))
    return np.ascontiguousarray(np.broadcast_to(a, (L,) + tuple(sshape))).astype(dtype)


def make_signal(rng, cls, L, sshape=None, rate=None, start='rand', data=None, **over):
    sshape = sample_shape(rng, cls) if sshape is None else sshape
    rate = rand_rate(rng) if rate is None else rate
    st = rand_start(rng) if isinstance(start, str) else start
    dt = dtype_for(cls, rng)
    if data is None:
        data = index_coded(L, sshape, dt)
    kw = dict(sample_rate=rate, start_time=st)
    if cls != 'Signal':
        kw['center_freq'] = over.pop('center_freq', rng.choice([400.0, 1400.0, 0.05, 8400.0]) * u.MHz)
        kw['freq_align'] = over.pop('freq_align', rng.choice(['bottom', 'center', 'top']))
        if cls in ('RadioSignal', 'IntensitySignal', 'FullStokesSignal'):
            kw['chan_bw'] = over.pop('chan_bw', rate)
    if cls == 'DualPolarizationSignal':
        kw['pol_type'] = over.pop('pol_type', rng.choice(['linear', 'circular']))
    kw.update(over)
    return getattr(pb, cls)(data, **kw)


def recode(z):
    """Same metadata, fresh index-coded data (so the next operation's provenance can be read back)."""
    return type(z).like(z, index_coded(len(z), z.sample_shape, z.dtype))


def first_index(y):
    """Input index of output sample 0 / stride, read back from index-coded data (None when undetermined)."""
    n = len(y)
    d = np.asarray(y.data).reshape(n, -1) if n else None
    first = int(round(float(d[0, 0].real))) if n >= 1 else None
    stride = int(round(float(d[1, 0].real - d[0, 0].real))) if n >= 2 else None
    return first, stride


def coded_consistent(y, first, stride):
    """All elements of every output sample carry the same index and the progression is affine."""
    n = len(y)
    if n == 0:
        return True
    d = np.asarray(y.data).reshape(n, -1).real
    want = first + (stride or 0) * np.arange(n)
    return bool(np.array_equal(d, np.broadcast_to(want[:, None], d.shape)))


def make_dm(rng, dmv, p=0.3):
    """a DispersionMeasure of dmv pc/cm^3; with probability p held in another, equivalent unit (the value the library must convert)"""
    import astropy.units as u
    import pulsarbat as pb
    if rng.random() >= p:
        return pb.DM(dmv)
    unit = rng.choice([u.cm ** -2, u.m ** -2, u.pc / u.m ** 3, u.kpc / u.cm ** 3, u.lyr / u.cm ** 3])
    return pb.DispersionMeasure((dmv * u.pc / u.cm ** 3).to(unit))


def restore_warning_filters():
    """CPython's warnings.catch_warnings is not thread-safe: baseband installs a temporary 'error' filter while it opens a file, and two
    worker threads doing so at once can leave that filter installed for the whole process (each restores what it saw on entry).  The
    harness runs with every warning ignored (PYTHONWARNINGS=ignore); this puts that state back after a threaded section."""
    import warnings
    warnings.resetwarnings()
    warnings.simplefilter('ignore')
