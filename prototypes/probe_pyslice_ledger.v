(* probe: CPython slice normalisation for positive steps and the C01 time ledger over Q *)
From Coq Require Import ZArith QArith Lia Lqa List Bool.
Open Scope Z_scope.

(* PySlice_AdjustIndices for step > 0, with None handling of slice.indices *)
Definition clip (len : Z) (v : option Z) (dflt : Z) : Z :=
  match v with
  | None => dflt
  | Some i => if i <? 0 then (if i + len <? 0 then 0 else i + len)
              else (if len <? i then len else i)
  end.
Definition slice_indices (start stop step : option Z) (len : Z) : option (Z * Z * Z) :=
  let st := match step with None => 1 | Some s => s end in
  if st <=? 0 then None       (* 0 -> ValueError, negative -> the AssertionError of _time_slice *)
  else Some (clip len start 0, clip len stop len, st).
Definition range_len (lo hi st : Z) : Z := if lo <? hi then (hi - lo - 1) / st + 1 else 0.

Lemma clip_range len v d : 0 <= len -> 0 <= d <= len -> 0 <= clip len v d <= len.
Proof. intros Hl Hd. unfold clip. destruct v as [i|]; [|lia].
  destruct (i <? 0) eqn:E1; [destruct (i + len <? 0) eqn:E2|destruct (len <? i) eqn:E2]; lia. Qed.

Lemma range_len_nonneg lo hi st : 0 < st -> 0 <= range_len lo hi st.
Proof. intros. unfold range_len. destruct (lo <? hi) eqn:E; [|lia].
  apply Z.ltb_lt in E. assert (0 <= (hi - lo - 1) / st) by (apply Z.div_pos; lia). lia. Qed.

Lemma range_len_index lo hi st k : 0 < st -> 0 <= k < range_len lo hi st -> lo <= lo + k * st < hi.
Proof. intros Hs [Hk0 Hk]. unfold range_len in Hk. destruct (lo <? hi) eqn:E; [|lia].
  apply Z.ltb_lt in E. assert (k <= (hi - lo - 1) / st) by lia.
  assert (k * st <= (hi - lo - 1) / st * st) by nia.
  pose proof (Z.mul_div_le (hi - lo - 1) st Hs). nia. Qed.

Lemma range_len_maximal lo hi st k : 0 < st -> 0 <= k -> lo + k * st < hi -> k < range_len lo hi st.
Proof. intros Hs Hk H. unfold range_len. destruct (lo <? hi) eqn:E.
  - assert (k * st <= hi - lo - 1) by lia. assert (k <= (hi - lo - 1) / st) by (apply Z.div_le_lower_bound; lia). lia.
  - apply Z.ltb_ge in E. nia. Qed.

(* ---------- time ledger ---------- *)
Record ledger := { t0 : option Q ; rate : Q ; len : Z }.
Definition time_of (l : ledger) (k : Z) : option Q :=
  match t0 l with None => None | Some t => Some (t + inject_Z k / rate l)%Q end.

(* Signal._time_slice + data[index] *)
Definition time_slice (l : ledger) (a b c : option Z) : option (ledger * (Z * Z)) :=
  match slice_indices a b c (len l) with
  | None => None
  | Some (lo, hi, st) =>
    Some ({| t0 := match t0 l with None => None | Some t => Some (t + inject_Z lo / rate l)%Q end;
             rate := if 1 <? st then (rate l / inject_Z st)%Q else rate l;
             len := range_len lo hi st |}, (lo, st))
  end.

Definition opt_Qeq (a b : option Q) : Prop :=
  match a, b with Some x, Some y => (x == y)%Q | None, None => True | _, _ => False end.

Theorem time_slice_sound l a b c l' off stride :
  (0 < rate l)%Q -> 0 <= len l ->
  time_slice l a b c = Some (l', (off, stride)) ->
  0 <= len l' /\ 0 < stride /\ (0 < rate l')%Q /\ (rate l' == rate l / inject_Z stride)%Q /\
  (t0 l' = None <-> t0 l = None) /\
  (forall k, 0 <= k < len l' -> 0 <= off + k * stride < len l) /\
  (forall k, 0 <= k -> off + k * stride < (match b with _ => clip (len l) b (len l) end) -> k < len l') /\
  (forall k, opt_Qeq (time_of l' k) (time_of l (off + k * stride))).
Proof.
  intros Hr Hl H. unfold time_slice, slice_indices in H.
  set (st := match c with None => 1 | Some s => s end) in *.
  destruct (st <=? 0) eqn:Est; [discriminate|]. apply Z.leb_gt in Est.
  injection H as <- <- <-. cbn [len rate t0].
  pose proof (clip_range (len l) a 0 Hl ltac:(lia)) as Ca.
  pose proof (clip_range (len l) b (len l) Hl ltac:(lia)) as Cb.
  assert (Hst : (0 < inject_Z st)%Q) by (unfold Qlt; simpl; lia).
  split; [apply range_len_nonneg; exact Est|]. split; [exact Est|].
  assert (R' : ((if 1 <? st then rate l / inject_Z st else rate l) == rate l / inject_Z st)%Q).
  { destruct (1 <? st) eqn:E; [reflexivity|]. apply Z.ltb_ge in E. assert (E1 : st = 1) by lia. rewrite E1.
    unfold Qdiv. change (/ inject_Z 1)%Q with 1%Q. ring. }
  split; [rewrite R'; apply Qlt_shift_div_l; [exact Hst|]; rewrite Qmult_0_l; exact Hr|].
  split; [exact R'|]. split; [destruct (t0 l); split; intro; congruence|].
  split; [intros k Hk; pose proof (range_len_index _ _ _ k Est Hk); lia|].
  split; [intros k Hk Hlt; apply range_len_maximal; assumption|].
  intros k. unfold time_of. cbn [t0 rate]. destruct (t0 l) as [t|]; [|exact I]. cbn [opt_Qeq].
  rewrite R'. rewrite inject_Z_plus, inject_Z_mult. field.
  split; lra.
Qed.

(* time_shift(crop=True): x[start : len(x) + stop] with stop <= 0 computed from negative shifts *)
Definition shift_crop (l : ledger) (start stop : Z) := time_slice l (Some start) (Some (len l + stop)) None.
(* the unrestricted "crop removes exactly the zeroed edges" statement is false of the faithful model: D11 *)
Example shift_crop_refuted :
  exists l', shift_crop {| t0 := None; rate := 1; len := 10 |} 0 (-12) = Some (l', (0, 1)) /\ len l' = 8.
Proof. eexists. split; reflexivity. Qed.
Print Assumptions time_slice_sound.
