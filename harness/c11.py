"""C11: readers are position-faithful, stateless and agree with the underlying file.
(P) Props/C11.v; (T) Model/Reader.v (bounds, time_at / offset_at, real-baseband doubling) evaluated by vm_compute on every request
and compared with what the reader did; (M) every read compared with an INDEPENDENT decoding path - baseband.open(...).read() of the
same file(s), sliced, conjugated / flipped / transposed by the harness, and for real-sampled files converted by an independent
analytic-signal routine (numpy.fft / direct DFT, not pulsarbat's) - for all shipped formats (real VDIF, complex DADA, multi-file
GUPPI, DADA Stokes), both sidebands, offsets on frame and file boundaries; random read histories, 16-thread concurrent reads, Dask
reads and adjacent reads must all return the same samples."""
import concurrent.futures as cf
import glob
from fractions import Fraction as Fr
import numpy as np
import astropy.units as u
from astropy.time import Time
import baseband
import dask
import pulsarbat as pb
import pulsarbat.readers as pbr
from harness import exact as X
from harness.common import qlit, zlit, optlit

VFILES = ['Model/Disp.v', 'Model/Reader.v', 'Proofs/DispProofs.v', 'Proofs/ReaderProofs.v', 'Gen/GenReader.v', 'Proofs/ReaderGen.v', 'Props/C11.v']
DATA = '/repo/tests/data/'

HEADER = '''From Coq Require Import ZArith QArith Qabs List Bool. Import ListNotations. Open Scope Z_scope.
From PB Require Import Model.Reader.
Definition Rd (len : Z) (rate : Q) (t0 : option Q) (real : bool) : reader := {| r_len := len; r_rate := rate; r_t0 := t0; r_real := real |}.
Definition close (tol a b : Q) : bool := Qle_bool (Qabs (a - b)) tol.
(* impl: 0 returned / 1 ValueError / 2 OutOfBoundsError ; length ; start time *)
Definition chk_read (r : reader) (o n : Z) (kind : Z) (ilen : Z) (istart : option Q) (tol : Q) : Z :=
  match read r o n, kind with
  | RErr e, k => if (e =? k) then 0 else 1
  | ROk m st lo hi, 0 =>
    (if m =? ilen then 0 else 2) +
    (match st, istart with Some a, Some b => if close tol a b then 0 else 4 | None, None => 0 | _, _ => 4 end) +
    (if (0 <=? lo) && (hi <=? file_len r) then 0 else 8)
  | ROk _ _ _ _, _ => 16
  end.
Definition chk_offset (r : reader) (t : Q) (impl : option Z) : Z :=
  match offset_at r t, impl with Some a, Some b => if a =? b then 0 else 1 | None, None => 0 | _, _ => 2 end.
'''


def analytic_ref(x):
    """independent real -> complex baseband conversion of a block (axis 0): negative frequencies removed via numpy.fft,
    mixed down by fs/4, decimated by 2"""
    N = x.shape[0]
    if N == 0:
        return x.astype(np.complex128)
    X_ = np.fft.fft(x.astype(np.float64), axis=0)
    h = np.zeros(N)
    if N:
        h[0] = 1
        if N % 2 == 0:
            h[N // 2] = 1
            h[1:N // 2] = 2
        else:
            h[1:(N + 1) // 2] = 2
    a = np.fft.ifft(X_ * h.reshape((N,) + (1,) * (x.ndim - 1)), axis=0)
    a = a * np.exp(-0.5j * np.pi * np.arange(N)).reshape((N,) + (1,) * (x.ndim - 1))
    return a[::2]


class Src:
    """a reader plus the independently decoded content of its file(s)"""

    def __init__(self, name, make, open_args, open_kw, real, lsb, post):
        self.name, self.make, self.real, self.lsb, self.post = name, make, real, lsb, post
        with baseband.open(*open_args, **open_kw) as fh:
            self.raw = fh.read()
            self.rate = fh.sample_rate
            self.t0 = Time(fh.start_time, format='isot', precision=9)
        self.reader = make()

    def expected(self, o, n):
        if self.real:
            z = analytic_ref(self.raw[2 * o: 2 * o + 2 * n])
        else:
            z = self.raw[o:o + n]
        if self.lsb is True:
            z = np.conj(z)
        elif self.lsb is not False and self.lsb is not None:
            z = z.copy()
            z[:, self.lsb] = np.conj(z[:, self.lsb])
        return self.post(z)


def run(ctx):
    rng = ctx.rng
    ctx.rule = ('shipped files: sample.vdif (real-sampled, 8 threads, 2 frames), sample.dada (complex, 2 pol), fake.[0-3].raw (GUPPI, 4 files x 8 '
                'frames), stokes_ef.dada (Stokes, lower sideband); upper / lower / per-channel sideband; plain, baseband and intensity '
                'signal types; (offset, n) incl. 0, len, frame and file boundaries +-1, n = 0, out-of-range and negative requests; '
                'random read histories, 16 concurrent threads, Dask reads, adjacent reads; offset_at / time_at round trips, absolute and '
                'relative. distinct by (reader, offset, n, mode).')
    ctx.trusted = ['translator T13 translate/py_reader2coq.py (time_at, offset_at, guards of read, seek/read arguments; _read_data pinned whole)', 'Coq 8.16.1 kernel (axiom-free)', 'baseband\'s decoding of the file formats (the independent path reads the same files through '
                   'baseband.open directly)', 'CPython threads / the OS for the concurrent runs (observed, not modelled: the theorem is about '
                   'interleavings of the atomic handle steps)']
    ctx.assumptions = ['real-sampled reads are compared with an independent analytic conversion within 2e-5*max|x| (complex64 output)']
    built = ctx.build(['Props/C11.vo'])
    ctx.count_obligations(VFILES)
    if built:
        ctx.assumptions_of('Props/C11.v', allowed=set())
    items, meta = [], []
    fs = sorted(glob.glob(DATA + 'fake.*.raw'))
    ident = lambda z: z
    lsb_arr = (np.arange(8) % 3).astype(bool)
    kwb = dict(center_freq=1.4 * u.GHz)
    kwi = dict(center_freq=1.4 * u.GHz, chan_bw=16 * u.MHz)
    srcs = [
        Src('vdif_real_usb', lambda: pbr.BasebandReader(DATA + 'sample.vdif'), (DATA + 'sample.vdif', 'rs'), {}, True, False, ident),
        Src('vdif_real_lsb', lambda: pbr.BasebandReader(DATA + 'sample.vdif', lower_sideband=True), (DATA + 'sample.vdif', 'rs'), {}, True, True, ident),
        Src('vdif_real_mixed', lambda: pbr.BasebandReader(DATA + 'sample.vdif', lower_sideband=lsb_arr), (DATA + 'sample.vdif', 'rs'), {}, True, lsb_arr, ident),
        # the same per-thread mask in other spellings (0/1 integers, a list): a mask is a mask whatever holds it
        Src('vdif_real_mixed_int', lambda: pbr.BasebandReader(DATA + 'sample.vdif', lower_sideband=lsb_arr.astype(np.int64)), (DATA + 'sample.vdif', 'rs'), {}, True, lsb_arr, ident),
        Src('vdif_real_mixed_list', lambda: pbr.BasebandReader(DATA + 'sample.vdif', lower_sideband=[int(v) for v in lsb_arr]), (DATA + 'sample.vdif', 'rs'), {}, True, lsb_arr, ident),
        Src('vdif_real_baseband', lambda: pbr.BasebandReader(DATA + 'sample.vdif', signal_type=pb.BasebandSignal, signal_kwargs=kwb),
            (DATA + 'sample.vdif', 'rs'), {}, True, False, ident),
        Src('vdif_intensity', lambda: pbr.BasebandReader(DATA + 'sample.vdif', signal_type=pb.IntensitySignal, signal_kwargs=kwi),
            (DATA + 'sample.vdif', 'rs'), {}, False, None, ident),
        Src('dada_complex_usb', lambda: pbr.BasebandReader(DATA + 'sample.dada'), (DATA + 'sample.dada', 'rs'), {}, False, False, ident),
        Src('dada_complex_lsb', lambda: pbr.BasebandReader(DATA + 'sample.dada', lower_sideband=True), (DATA + 'sample.dada', 'rs'), {}, False, True, ident),
        Src('dada_complex_unsqueezed', lambda: pbr.BasebandReader(DATA + 'sample.dada', squeeze=False), (DATA + 'sample.dada', 'rs'), dict(squeeze=False), False, False, ident),
        Src('guppi_multi', lambda: pbr.GUPPIRawReader(fs), (fs, 'rs'), dict(format='guppi', squeeze=False), False, None, lambda z: z.transpose(0, 2, 1)),
        Src('guppi_single', lambda: pbr.GUPPIRawReader(fs[2]), (fs[2], 'rs'), dict(format='guppi', squeeze=False), False, None, lambda z: z.transpose(0, 2, 1)),
        Src('dada_stokes', lambda: pbr.DADAStokesReader(DATA + 'stokes_ef.dada'), (DATA + 'stokes_ef.dada', 'rs'), dict(format='dada', squeeze=False),
            False, None, lambda z: np.flip(z, axis=-1).transpose(0, 2, 1)),
    ]
    # GUPPI: lower_sideband = not header.sideband
    with baseband.open(fs, 'rs', format='guppi', squeeze=False) as fh:
        gl = not fh.header0.sideband
    for s in srcs:
        if s.name.startswith('guppi'):
            s.lsb = bool(gl)
    bounds = {'vdif_real': [10000], 'vdif_intensity': [20000], 'dada': [], 'guppi_multi': [1024, 8192, 16384, 24576], 'guppi_single': [1024, 4096], 'dada_stokes': []}

    def boundaries(s):
        for k, v in bounds.items():
            if s.name.startswith(k):
                return v
        return []

    def check_read(s, o, n, z, inp, mode):
        r = s.reader
        want = s.expected(o, n)
        zd = np.asarray(z.data.compute() if hasattr(z.data, 'compute') else z.data)
        if zd.shape != want.shape:
            ctx.fail('read_shape', inp, impl=list(zd.shape), model=list(want.shape))
            return False
        if zd.dtype != r.dtype:
            ctx.fail('read_dtype', inp, impl=str(zd.dtype))
            return False
        if s.real:
            mx = float(np.max(np.abs(s.raw[2 * o:2 * o + 2 * n]))) + 1e-30 if n else 1.0
            e = float(np.max(np.abs(zd - want))) if n else 0.0
            ctx.ratio(e, 2e-5 * mx)
            if e > 2e-5 * mx:
                ctx.fail('samples_differ_from_independent_conversion', inp, impl=e)
                return False
        elif not np.array_equal(zd, want.astype(zd.dtype)):
            ctx.fail('samples_differ_from_file', inp, impl=str(zd.reshape(-1)[:3]), model=str(want.reshape(-1)[:3]))
            return False
        return True

    NR = 26 if ctx.tier == 'quick' else 300
    for s in srcs:
        r = s.reader
        L = len(r)
        real = s.real
        # reader-level metadata vs the file
        exp_len = s.raw.shape[0] // 2 if real else s.raw.shape[0]
        exp_rate = X.hz(s.rate) / 2 if real else X.hz(s.rate)
        inp0 = dict(reader=s.name)
        if L != exp_len or abs(X.hz(r.sample_rate) - exp_rate) > exp_rate / 2 ** 45 or abs(X.sec(r.start_time) - X.sec(s.t0)) > Fr(1, 10 ** 10):
            ctx.fail('reader_metadata_differs_from_file', inp0, impl=[L, str(r.sample_rate), str(r.start_time)])
            continue
        rlit = f'(Rd {L} {qlit(X.hz(r.sample_rate))} (Some {qlit(X.sec(r.start_time))}) {"true" if real else "false"})'
        ttol = qlit(Fr(1, 10 ** 9))
        reqs = []
        for k in range(NR):
            b = rng.choice(boundaries(s) + [0, L]) if rng.random() < 0.5 else rng.randint(0, L)
            o = max(0, min(L, b + rng.choice([0, 0, -1, 1, -3, 2])))
            n = rng.choice([0, 1, 2, 7, 16, 33, 64, 100]) if not s.name.startswith('dada_stokes') else rng.choice([0, 1, 2, 5])
            n = min(n, L - o)
            reqs.append((o, n))
        # valid reads, twice each through different histories
        results = {}
        for (o, n) in reqs:
            inp = dict(reader=s.name, offset=o, n=n, mode='eager')
            ctx.seen(inp); ctx.count('reader:' + s.name); ctx.count('mode:eager')
            try:
                z = r.read(o, n)
            except Exception as e:
                ctx.fail('valid_read_raised', inp, impl=repr(e))
                items.append(f'chk_read {rlit} {o} {n} 1 0 None {ttol}'); meta.append(dict(inp=inp, impl=repr(e)))
                continue
            st = X.sec(z.start_time)
            items.append(f'chk_read {rlit} {o} {n} 0 {len(z)} (Some {qlit(st)}) {ttol}')
            meta.append(dict(inp=inp, impl=[len(z), str(z.start_time)]))
            if len(z) != n or abs(st - (X.sec(s.t0) + Fr(o) / exp_rate)) > Fr(1, 10 ** 9) or \
               abs(X.sec(r.time_at(o)) - st) > Fr(1, 10 ** 12) or abs(X.hz(z.sample_rate) - exp_rate) > exp_rate / 2 ** 45:
                ctx.fail('length_or_start_time', inp, impl=[len(z), str(z.start_time)], model=float(Fr(o) / exp_rate))
                continue
            if check_read(s, o, n, z, inp, 'eager'):
                results[(o, n)] = np.asarray(z.data).copy()
        # stateless: same request again after the whole history, in reverse order, gives the same bytes
        for (o, n) in reversed(reqs):
            if (o, n) in results:
                z2 = np.asarray(r.read(o, n).data)
                ctx.count('mode:history')
                if not np.array_equal(z2, results[(o, n)]):
                    ctx.fail('read_depends_on_history', dict(reader=s.name, offset=o, n=n, mode='history'))
        # concurrent reads from 16 threads
        todo = [q for q in reqs if q in results] * 3
        rng.shuffle(todo)
        def worker(q):
            # baseband's file-info code uses warnings.catch_warnings() + simplefilter('error'), which is not thread-safe in
            # CPython: another thread can see the 'error' filter and get a (Deprecation)Warning raised.  That is the warnings
            # module's race, not a property of the reader: retry, and count it.
            for attempt in range(6):
                try:
                    return np.asarray(r.read(*q).data)
                except Warning:
                    races.append(1)
                except Exception as e:          # a concurrent read that raises is a finding, not a harness error
                    return ('raised', repr(e))
            return None
        races = []
        with cf.ThreadPoolExecutor(max_workers=16) as ex:
            outs = list(ex.map(worker, todo))
        import warnings
        warnings.resetwarnings()
        warnings.simplefilter('ignore')
        if races:
            ctx.count('warnings_module_thread_race', len(races))
        for q, out in zip(todo, outs):
            ctx.count('mode:threads')
            if out is None:
                ctx.count('thread_read_gave_up')
                continue
            if isinstance(out, tuple):
                ctx.fail('concurrent_read_raised', dict(reader=s.name, offset=q[0], n=q[1], mode='threads16'), impl=out[1])
                continue
            if not np.array_equal(out, results[q]):
                ctx.fail('concurrent_read_differs', dict(reader=s.name, offset=q[0], n=q[1], mode='threads16'))
        # dask reads
        for q in rng.sample([q for q in reqs if q in results], min(6, len(results))):
            inp = dict(reader=s.name, offset=q[0], n=q[1], mode='dask')
            ctx.seen(inp); ctx.count('mode:dask')
            try:
                kwc = {}
                if q[1] > 1 and rng.random() < 0.6:
                    # an explicit chunks= argument, also one that splits the time axis (evenly or not): only the container changes
                    n_ = q[1]
                    tchunk = rng.choice([-1, max(1, n_ // 2), max(1, n_ // 3), (n_ - 1, 1), rng.randint(1, n_)])
                    kwc['chunks'] = (tchunk,) + tuple(rng.choice([-1, 1]) for _ in r.sample_shape)
                    inp['chunks'] = repr(kwc['chunks'])
                    ctx.count('dask_read_with_chunks')
                zd = r.dask_read(*q, **kwc) if rng.random() < 0.5 else r.read(*q, use_dask=True, **kwc)
                if not hasattr(zd.data, 'compute'):
                    ctx.fail('dask_read_not_lazy', inp)
                    continue
                sched = rng.choice(['synchronous', 'threads'])
                with dask.config.set(scheduler=sched):
                    val = np.asarray(zd.data.compute())
                if not np.array_equal(val, results[q]) or abs(X.sec(zd.start_time) - (X.sec(s.t0) + Fr(q[0]) / exp_rate)) > Fr(1, 10 ** 9):
                    ctx.fail('dask_read_differs_from_eager', inp)
            except Exception as e:
                ctx.fail('dask_read_raised', inp, impl=repr(e))
        # adjacent reads (no Hilbert conversion)
        if not real:
            for k in range(6):
                o = rng.randint(0, max(0, L - 2))
                n1 = rng.randint(0, min(40, L - o))
                n2 = rng.randint(0, min(40, L - o - n1))
                a, b, c = (np.asarray(r.read(o, n1).data), np.asarray(r.read(o + n1, n2).data), np.asarray(r.read(o, n1 + n2).data))
                ctx.count('mode:adjacent')
                ctx.seen(dict(reader=s.name, offset=o, n=[n1, n2], mode='adjacent'))
                if not np.array_equal(np.concatenate([a, b], axis=0), c):
                    ctx.fail('adjacent_reads_do_not_concatenate', dict(reader=s.name, offset=o, n1=n1, n2=n2))
        # out-of-range and negative requests
        for (o, n, kind) in [(L, 1, 2), (L - 1, 2, 2), (0, L + 1, 2), (-1, 1, 1), (0, -1, 1), (L + 5, 0, 2), (L, 0, 0), (0, 0, 0)]:
            inp = dict(reader=s.name, offset=o, n=n, mode='bounds')
            ctx.seen(inp); ctx.count('mode:bounds')
            try:
                z = r.read(o, n)
                got = 0
            except pbr._base.OutOfBoundsError if hasattr(pbr, '_base') else EOFError:
                got = 2
            except ValueError:
                got = 1
            except EOFError:
                got = 2
            except Exception as e:
                got = 9
                ctx.fail('bounds_wrong_error', inp, impl=repr(e))
            if got != kind:
                ctx.fail('bounds_request_outcome', inp, impl=got, model=kind)
            items.append(f'chk_read {rlit} {zlit(o)} {zlit(n)} {got} {zlit(n if got == 0 else 0)} ' + (f'(Some {qlit(X.sec(z.start_time))})' if got == 0 else 'None') + f' {ttol}')
            meta.append(dict(inp=inp, impl=got))
        # offset_at / time_at round trips
        for k in [0, L, 1, L - 1] + [rng.randint(0, L) for _ in range(6)]:
            inp = dict(reader=s.name, k=k, mode='roundtrip')
            ctx.seen(inp); ctx.count('mode:roundtrip')
            try:
                t = r.time_at(k)
                back = r.offset_at(t)
                rel = r.offset_at(r.time_at(k, unit=rng.choice([u.s, u.ms, u.us])))
                if back != k or rel != k:
                    ctx.fail('offset_at_time_at_roundtrip', inp, impl=[back, rel])
                items.append(f'chk_offset {rlit} {qlit(X.sec(t))} (Some {back})')
                meta.append(dict(inp=inp, impl=back))
            except Exception as e:
                ctx.fail('roundtrip_raised', inp, impl=repr(e))
        # positions a fraction of a sample around both ends (and inside): nearest-sample rule, refused outside [0, len] --
        # in particular one sample before the start and one after the end, absolute and relative
        for k0 in [-2, -1, 0, 1, L - 1, L, L + 1, L + 2, rng.randint(0, L)]:
            for dlt in (-0.75, -0.3, 0.0, 0.3, 0.75):
                pos = k0 + dlt
                inp = dict(reader=s.name, position=pos, mode='offset_near_boundary')
                ctx.seen(inp); ctx.count('mode:offset_near_boundary')
                dtq = (pos / r.sample_rate).to(u.s)
                for form in ('absolute', 'relative'):
                    arg = (r.start_time + dtq) if form == 'absolute' else dtq
                    try:
                        got = int(r.offset_at(arg))
                    except EOFError:
                        got = None
                    except Exception as e:
                        ctx.fail('offset_at_wrong_error', dict(inp, form=form), impl=repr(e))
                        continue
                    want = int(np.floor(pos + 0.5))
                    want = want if 0 <= want <= L else None
                    if got != want:
                        ctx.fail('offset_at_near_boundary', dict(inp, form=form), impl=got, model=want)
                    if form == 'absolute':
                        items.append(f'chk_offset {rlit} {qlit(X.sec(arg))} {"None" if got is None else "(Some %d)" % got}')
                        meta.append(dict(inp=inp, impl=got))
        for dt_s in (-1.0, float(L / exp_rate) + 1.0):
            inp = dict(reader=s.name, t=dt_s, mode='offset_out_of_range')
            try:
                r.offset_at(dt_s * u.s)
                ctx.fail('offset_at_out_of_range_accepted', inp)
            except EOFError:
                pass
            except Exception as e:
                ctx.fail('offset_at_wrong_error', inp, impl=repr(e))
        # frequency metadata of header-driven readers
        if s.name.startswith('guppi'):
            z = r.read(0, 4)
            with baseband.open(fs, 'rs', format='guppi', squeeze=False) as fh:
                h = fh.header0
            if not (u.isclose(z.center_freq, h['OBSFREQ'] * u.MHz) and z.pol_type == {'LIN': 'linear', 'CIRC': 'circular'}[h['FD_POLN']]
                    and u.isclose(z.bandwidth, abs(h['OBSBW']) * u.MHz) and z.shape[1:] == (h['OBSNCHAN'], 2)):
                ctx.fail('header_metadata', dict(reader=s.name), impl=[str(z.center_freq), z.pol_type, str(z.bandwidth)])
        if s.name == 'dada_stokes':
            z = r.read(0, 2)
            with baseband.open(DATA + 'stokes_ef.dada', 'rs', format='dada', squeeze=False) as fh:
                h = fh.header0
            if not (u.isclose(z.center_freq, h['FREQ'] * u.MHz) and u.isclose(z.bandwidth, abs(h['BW']) * u.MHz)
                    and z.freq_align == ('top' if h['BW'] < 0 else 'bottom') and z.shape[1:] == (h['NCHAN'], 4)):
                ctx.fail('header_metadata', dict(reader=s.name), impl=[str(z.center_freq), str(z.bandwidth), z.freq_align])

    # lazy reads of DISTINCT readers at the same (offset, n), evaluated in ONE graph (dask.compute of both, a stacked / subtracted
    # array): every reader must still return ITS data -- the reads of two readers must not share task keys
    import dask.array as da
    for k in range(20 if ctx.tier == 'quick' else 200):
        a, b = rng.sample(srcs, 2)
        Lm = min(len(a.reader), len(b.reader))
        o = rng.randint(0, max(0, Lm - 1))
        n = min(rng.choice([1, 2, 7, 16, 33]), Lm - o) if a.name.startswith('dada_stokes') or b.name.startswith('dada_stokes') else min(rng.choice([1, 8, 16, 64]), Lm - o)
        inp = dict(readers=[a.name, b.name], offset=o, n=n, mode='dask_joint')
        ctx.seen(inp); ctx.count('mode:dask_joint')
        try:
            ea, eb = np.asarray(a.reader.read(o, n).data), np.asarray(b.reader.read(o, n).data)
            how = rng.choice(['compute_together', 'stack', 'difference'])
            la = a.reader.dask_read(o, n) if rng.random() < 0.5 else a.reader.read(o, n, use_dask=True)
            lb = b.reader.dask_read(o, n) if rng.random() < 0.5 else b.reader.read(o, n, use_dask=True)
            with dask.config.set(scheduler=rng.choice(['synchronous', 'threads'])):
                if how == 'compute_together' or la.data.shape != lb.data.shape:
                    va, vb = dask.compute(la.data, lb.data)
                elif how == 'stack':
                    st = da.stack([la.data, lb.data]).compute()
                    va, vb = st[0], st[1]
                else:
                    va = np.asarray(la.data.compute())
                    vb = va - np.asarray((la.data - lb.data).compute())
                    if not np.allclose(vb, eb, rtol=1e-5, atol=1e-5 * (np.max(np.abs(eb)) if eb.size else 0)):
                        ctx.fail('dask_reads_of_two_readers_interfere', dict(inp, how=how)); continue
                    vb = eb
            if not (np.array_equal(np.asarray(va), ea) and np.array_equal(np.asarray(vb), eb)):
                ctx.fail('dask_reads_of_two_readers_interfere', dict(inp, how=how))
        except Exception as e:
            ctx.fail('dask_read_raised', inp, impl=repr(e))

    res = ctx.run_cases(HEADER, items, shard=max(60, len(items) // 16 + 1))
    if res is None:
        return
    for r_, m in zip(res, meta):
        if r_:
            ctx.mismatch(f'reader position model vs implementation (code {r_})', m['inp'], impl=m['impl'])
