(* Proofs/DivChain.v -- real-number error analysis of the divisor branch of day_frac (C07): the pair (q1, q2) computed from the
   rounded operations is within 16 u^2 |s/d| (+ negligible underflow terms) of the exact quotient, u = 2^-53. *)
From Coq Require Import Reals Psatz.
Open Scope R_scope.

Definition u53 : R := / 9007199254740992.

Lemma abs_div x dv D : 0 < D -> Rabs dv = D -> Rabs (x / dv) = Rabs x / D.
Proof. intros HD E. unfold Rdiv. rewrite Rabs_mult, Rabs_inv, E. reflexivity. Qed.

Lemma Rabs_sub_le a b : Rabs (a - b) <= Rabs a + Rabs b.
Proof. unfold Rminus. apply Rle_trans with (1:=Rabs_triang _ _). rewrite Rabs_Ropp. lra. Qed.

Lemma div_chain (V dv s e q1 p1 p2 d1 d2 x1 x2 r q2 eta S D : R) :
  0 <= eta -> 0 < D -> Rabs dv = D -> Rabs s <= S ->
  s + e = V -> Rabs e <= u53 * Rabs V ->
  Rabs (q1 - s / dv) <= u53 * Rabs (s / dv) + eta ->
  p1 + p2 = q1 * dv -> Rabs p2 <= u53 * Rabs (q1 * dv) + eta ->
  d1 + d2 = s - p1 -> Rabs d2 <= u53 * Rabs (s - p1) + eta ->
  Rabs (x1 - (d2 + e)) <= u53 * Rabs (d2 + e) + eta ->
  Rabs (x2 - (x1 - p2)) <= u53 * Rabs (x1 - p2) + eta ->
  Rabs (r - (d1 + x2)) <= u53 * Rabs (d1 + x2) + eta ->
  Rabs (q2 - r / dv) <= u53 * Rabs (r / dv) + eta ->
  Rabs (V / dv - (q1 + q2)) <= 16 * u53 * u53 * (S / D) + 9 * eta + 8 * (eta / D) /\
  Rabs (q1 + q2) <= Rabs (V / dv) + 16 * u53 * u53 * (S / D) + 9 * eta + 8 * (eta / D) /\
  Rabs q2 <= 5 * u53 * (S / D) + 4 * eta + 8 * (eta / D).
Proof.
  intros Heta HD EdV HS Hse He Hq1 Hp Hp2 Hd Hd2 Hx1 Hx2 Hr Hq2.
  assert (Hdv : dv <> 0) by (intro C; rewrite C, Rabs_R0 in EdV; lra).
  unfold u53 in *.
  set (aS := Rabs s) in *. set (aE := Rabs e) in *.
  assert (P0 : 0 <= aS) by apply Rabs_pos. assert (P1 : 0 <= aE) by apply Rabs_pos.
  (* 1 *)
  assert (T1 : Rabs V <= aS + aE) by (rewrite <- Hse; apply Rabs_triang).
  assert (E1 : aE <= 2 * / 9007199254740992 * S) by lra.
  (* 2 *)
  set (W := q1 * dv - s).
  assert (EW : Rabs W = Rabs (q1 - s / dv) * D).
  { unfold W. replace (q1 * dv - s) with ((q1 - s / dv) * dv) by (field; exact Hdv). rewrite Rabs_mult, EdV. reflexivity. }
  assert (EsD : Rabs (s / dv) * D = aS) by (rewrite (abs_div s dv D HD EdV); unfold aS; field; lra).
  set (eD := eta * D). assert (PeD : 0 <= eD) by (unfold eD; apply Rmult_le_pos; lra).
  assert (BW : Rabs W <= / 9007199254740992 * S + eD).
  { rewrite EW. apply Rle_trans with ((/ 9007199254740992 * Rabs (s / dv) + eta) * D); [apply Rmult_le_compat_r; lra|].
    replace ((/ 9007199254740992 * Rabs (s / dv) + eta) * D) with (/ 9007199254740992 * (Rabs (s / dv) * D) + eD) by (unfold eD; ring).
    rewrite EsD. lra. }
  (* 3 *)
  assert (Bq1dv : Rabs (q1 * dv) <= aS + Rabs W).
  { replace (q1 * dv) with (s + W) by (unfold W; ring). apply Rabs_triang. }
  assert (Bp2 : Rabs p2 <= 2 * / 9007199254740992 * S + / 9007199254740992 * eD + eta) by lra.
  (* 4 *)
  assert (Esp1 : s - p1 = p2 - W) by (unfold W; lra).
  assert (Bsp1 : Rabs (s - p1) <= Rabs p2 + Rabs W).
  { rewrite Esp1. apply Rabs_sub_le. }
  assert (Bd2 : Rabs d2 <= 4 * / 9007199254740992 * / 9007199254740992 * S + 2 * / 9007199254740992 * eD + 2 * eta) by lra.
  assert (Bd1 : Rabs d1 <= Rabs (s - p1) + Rabs d2).
  { replace d1 with ((s - p1) - d2) by lra. apply Rabs_sub_le. }
  (* 5 *)
  assert (Bde : Rabs (d2 + e) <= Rabs d2 + aE) by apply Rabs_triang.
  set (da := x1 - (d2 + e)) in *.
  assert (Bx1 : Rabs x1 <= Rabs (d2 + e) + Rabs da).
  { replace x1 with ((d2 + e) + da) by (unfold da; ring). apply Rabs_triang. }
  (* 6 *)
  assert (Bxp : Rabs (x1 - p2) <= Rabs x1 + Rabs p2).
  { apply Rabs_sub_le. }
  set (db := x2 - (x1 - p2)) in *.
  assert (Bx2 : Rabs x2 <= Rabs (x1 - p2) + Rabs db).
  { replace x2 with ((x1 - p2) + db) by (unfold db; ring). apply Rabs_triang. }
  (* 7 *)
  assert (Bdx : Rabs (d1 + x2) <= Rabs d1 + Rabs x2) by apply Rabs_triang.
  set (dc := r - (d1 + x2)) in *.
  (* 8 *)
  set (Res := V - q1 * dv).
  assert (ER : Res = e - W) by (unfold Res, W; lra).
  assert (BR : Rabs Res <= aE + Rabs W).
  { rewrite ER. apply Rabs_sub_le. }
  assert (ErR : r - Res = dc + db + da).
  { unfold dc, db, da, Res. replace V with (s + e) by exact Hse. replace (q1 * dv) with (p1 + p2) by exact Hp.
    replace s with (d1 + d2 + p1) by lra. ring. }
  assert (BrR : Rabs (r - Res) <= Rabs dc + Rabs db + Rabs da).
  { rewrite ErR. apply Rle_trans with (1:=Rabs_triang _ _). apply Rplus_le_compat_r. apply Rabs_triang. }
  assert (Br : Rabs r <= Rabs Res + Rabs (r - Res)).
  { replace r with (Res + (r - Res)) at 1 by ring. apply Rabs_triang. }
  (* numeric bounds *)
  assert (NrR : Rabs (r - Res) <= 12 * / 9007199254740992 * / 9007199254740992 * S + 6 * / 9007199254740992 * eD + 4 * eta).
  { pose proof (Rabs_pos W). pose proof (Rabs_pos p2). pose proof (Rabs_pos d2). pose proof (Rabs_pos d1). pose proof (Rabs_pos x1).
    pose proof (Rabs_pos x2). pose proof (Rabs_pos da). pose proof (Rabs_pos db). pose proof (Rabs_pos dc).
    pose proof (Rabs_pos (s - p1)). pose proof (Rabs_pos (d2 + e)). pose proof (Rabs_pos (x1 - p2)). pose proof (Rabs_pos (d1 + x2)). lra. }
  assert (Nr : Rabs r <= 4 * / 9007199254740992 * S + 2 * eD + 4 * eta).
  { pose proof (Rabs_pos W). pose proof (Rabs_pos Res). lra. }
  (* 9 *)
  assert (EQ : V / dv - (q1 + q2) = - ((r - Res) / dv) + (r / dv - q2)).
  { unfold Res. field. exact Hdv. }
  assert (B1 : Rabs ((r - Res) / dv) <= (12 * / 9007199254740992 * / 9007199254740992 * S + 6 * / 9007199254740992 * eD + 4 * eta) / D).
  { rewrite (abs_div _ dv D HD EdV). apply Rmult_le_compat_r; [apply Rlt_le, Rinv_0_lt_compat; exact HD|exact NrR]. }
  assert (B2 : Rabs (r / dv) <= (4 * / 9007199254740992 * S + 2 * eD + 4 * eta) / D).
  { rewrite (abs_div _ dv D HD EdV). apply Rmult_le_compat_r; [apply Rlt_le, Rinv_0_lt_compat; exact HD|exact Nr]. }
  assert (EeD : eD / D = eta) by (unfold eD; field; lra).
  assert (X1 : (12 * / 9007199254740992 * / 9007199254740992 * S + 6 * / 9007199254740992 * eD + 4 * eta) / D =
               12 * / 9007199254740992 * / 9007199254740992 * (S / D) + 6 * / 9007199254740992 * eta + 4 * (eta / D)).
  { unfold eD. field. lra. }
  assert (X2 : (4 * / 9007199254740992 * S + 2 * eD + 4 * eta) / D = 4 * / 9007199254740992 * (S / D) + 2 * eta + 4 * (eta / D)).
  { unfold eD. field. lra. }
  rewrite X1 in B1. rewrite X2 in B2.
  assert (PSD : 0 <= S / D) by (apply Rmult_le_pos; [lra|apply Rlt_le, Rinv_0_lt_compat; exact HD]).
  assert (PeDD : 0 <= eta / D) by (apply Rmult_le_pos; [lra|apply Rlt_le, Rinv_0_lt_compat; exact HD]).
  assert (Main : Rabs (V / dv - (q1 + q2)) <= 16 * / 9007199254740992 * / 9007199254740992 * (S / D) + 9 * eta + 8 * (eta / D)).
  { rewrite EQ. apply Rle_trans with (1:=Rabs_triang _ _). rewrite Rabs_Ropp.
    assert (Rabs (r / dv - q2) <= / 9007199254740992 * Rabs (r / dv) + eta) by (rewrite Rabs_minus_sym; exact Hq2).
    pose proof (Rabs_pos (r / dv)). lra. }
  split; [exact Main|]. split.
  - replace (q1 + q2) with (V / dv - (V / dv - (q1 + q2))) by ring.
    apply Rle_trans with (1:=Rabs_sub_le _ _). lra.
  - assert (Rabs q2 <= Rabs (r / dv) + Rabs (q2 - r / dv)).
    { replace q2 with (r / dv + (q2 - r / dv)) at 1 by ring. apply Rabs_triang. }
    pose proof (Rabs_pos (r / dv)). lra.
Qed.
