(* Props/C14.v -- no operation modifies the signal or arguments it is given.
   The programs are REGENERATED from /repo's Python source by translator T3 on every run (Gen/GenEffects.v);
   the analyser and its soundness proof are in Model/Effects.v and Proofs/EffectsProofs.v. *)
From Coq Require Import List Bool.
From PB Require Import Model.Effects Proofs.EffectsProofs Gen.GenEffects.
Import ListNotations.

(* soundness of the analyser, for every program of the IR: an accepted function writes no input buffer in any execution
   (any resolution of view-or-copy, any branch, any number of loop iterations) nor in any PREFIX of an execution
   (the call raised at that point) *)
Theorem C14_analyser_sound : forall p st', ok_fn p = true -> part (snd p) (init_env (fst p), []) st' -> snd st' = [].
Proof. intros p st'. exact (ok_fn_sound p st'). Qed.

(* the per-function obligations about the code as it is now: every lowered function is accepted *)
Theorem C14_every_function_accepted : forallb ok_fn all_fns = true.
Proof. vm_compute. reflexivity. Qed.
(* no function silently dropped from the generated list *)
Theorem C14_function_count : length all_fns = 58.
Proof. reflexivity. Qed.

(* hence: no lowered pulsarbat function writes to any of its inputs, whether it returns or raises *)
Theorem C14_no_input_written : forall p st', In p all_fns -> part (snd p) (init_env (fst p), []) st' -> snd st' = [].
Proof. exact (all_ok_sound all_fns C14_every_function_accepted). Qed.

(* non-vacuity: the defect repaired by bcedcfc (x = z.data.reshape(..); x *= nperseg) is rejected, its repair accepted *)
Example C14_istft_defect_rejected : ok_fn (1, SSeq (SAssign 1 (EAlias [EAlias [EVar 0]])) (SWrite (EVar 1))) = false.
Proof. reflexivity. Qed.
Example C14_istft_repair_accepted :
  ok_fn (1, SSeq (SAssign 1 (EAlias [EAlias [EVar 0]])) (SSeq (SAssign 1 (EFresh [EVar 1])) (SWrite (EVar 1)))) = true.
Proof. reflexivity. Qed.

Print Assumptions C14_analyser_sound.
Print Assumptions C14_every_function_accepted.
Print Assumptions C14_no_input_written.
