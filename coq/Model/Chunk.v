(* Model/Chunk.v -- Dask-backed evaluation (C09), the part that is logic: an array is a list of columns (one per element of
   the sample shape), a chunking is any split of the columns into consecutive blocks, a Dask graph is one pure task per block,
   a scheduler executes the tasks in any order (each writes its own slot), the result is assembled by block index.  Building
   the graph executes nothing.  No proofs in this file. *)
From Coq Require Import List Arith Bool.
Import ListNotations.

Section Chunk.
  Variables A B : Type.
  Variable f : list A -> list B.                 (* a column-separable operation: what it does to ONE column (time series) *)
  Definition col := list A.

  (* consecutive blocks of the given sizes *)
  Fixpoint split_at (sizes : list nat) (cols : list col) : list (list col) :=
    match sizes with
    | [] => []
    | s :: r => firstn s cols :: split_at r (skipn s cols)
    end.
  Definition task (blk : list col) : list (list B) := map f blk.

  (* graph construction: the tasks are recorded, none is run *)
  Record graph := { g_blocks : list (list col); g_executed : nat }.
  Definition build (sizes : list nat) (cols : list col) : graph := {| g_blocks := split_at sizes cols; g_executed := 0 |}.

  (* execution under a schedule (any order, repetitions allowed): slot i receives the result of task i *)
  Definition store := list (option (list (list B))).
  Fixpoint set_slot (st : store) (i : nat) (v : list (list B)) : store :=
    match st, i with
    | [], _ => []
    | _ :: r, O => Some v :: r
    | x :: r, S j => x :: set_slot r j v
    end.
  Fixpoint exec (blocks : list (list col)) (order : list nat) (st : store) : store :=
    match order with
    | [] => st
    | i :: rest => exec blocks rest (set_slot st i (task (nth i blocks [])))
    end.
  Definition assemble (st : store) : list (list B) :=
    concat (map (fun o => match o with Some r => r | None => [] end) st).
  Definition compute (g : graph) (order : list nat) : list (list B) * nat :=
    (assemble (exec (g_blocks g) order (repeat None (length (g_blocks g)))), g_executed g + length order).

  (* the NumPy-backed evaluation *)
  Definition eager (cols : list col) : list (list B) := map f cols.
End Chunk.

(* element-wise operations may also be chunked along time *)
Section Elementwise.
  Variables A B : Type.
  Variable g : A -> B.
  Fixpoint split_time (sizes : list nat) (x : list A) : list (list A) :=
    match sizes with [] => [] | s :: r => firstn s x :: split_time r (skipn s x) end.
  Definition chunked_map (sizes : list nat) (x : list A) : list B := concat (map (map g) (split_time sizes x)).
End Elementwise.
