"""C03: time_shift is a band-limited delay with exact zero-fill and no wrap-around.
(P) Props/C03.v; (T) Model/Shift.v: index model (broadcast, per-element zero range, crop) evaluated by vm_compute on the
very shift array the code holds and compared exactly with the observed zero mask / crop, plus the binary64 instance of the
carrier-generic transform on lanes; (M) Shift.zero_ok (the property's zero-fill clause, stated in Coq) evaluated on the
implementation's zero mask, an independent O(N^2) longdouble DFT oracle for the values, metadata and crop clauses."""
import math
from fractions import Fraction
import numpy as np
import astropy.units as u
import dask.array as da
import pulsarbat as pb
from harness.common import qlit, zlit, listlit, float_lit
from harness.common import asked_before
from harness import exact as X

VFILES = ['Lib/PySlice.v', 'Lib/Dft.v', 'Lib/DftC.v', 'Lib/F64.v', 'Model/Shift.v', 'Proofs/ShiftProofs.v', 'Gen/GenShift.v', 'Proofs/ShiftGen.v', 'Proofs/ShiftC.v', 'Proofs/SnippetC.v', 'Props/C03.v']
REAL_AX = {'ClassicalDedekindReals.sig_forall_dec', 'ClassicalDedekindReals.sig_not_dec',
           'FunctionalExtensionality.functional_extensionality_dep', 'Classical_Prop.classic'}

HEADER = '''From Coq Require Import ZArith QArith PrimFloat List Bool. Import ListNotations. Open Scope Z_scope.
From PB Require Import Lib.F64 Model.Shift.
Fixpoint leqb (a b : list Z) : bool := match a, b with [], [] => true | x :: a', y :: b' => (x =? y) && leqb a' b' | _, _ => false end.
(* correspondence: model index result = what was observed; 0 = equal *)
Definition chk_idx (early : bool) (N : Z) (ss sh : list Z) (vals : list Q) (obs : list Z) : Z :=
  if leqb (shift_idx_flat early N ss sh vals) obs then 0 else 1.
(* monitor: the zero-fill clause on the observed mask; 0 = holds *)
Definition mon_zero (N : Z) (ss sh : list Z) (vals : list Q) (obs : list (list Z)) : Z := zero_ok N ss sh vals obs.
Definition chk_lane (xs : list Fc) (p q lo hi : Z) (out : list Fc) (tol : float) : Z :=
  if Fcclose_list tol (tshift_f xs p q (lo, hi)) out then 0 else 1.
(* real input: the code keeps the real part *)
Definition chk_lane_re (xs : list Fc) (p q lo hi : Z) (out : list Fc) (tol : float) : Z :=
  if Fcclose_list tol (map (fun c => (fst c, f0)) (tshift_f xs p q (lo, hi))) out then 0 else 1.
'''


def gen_shift(rng, N, ss):
    """shape and values of a shift array that broadcasts against sample shape ss (most of the time)."""
    rank = len(ss)
    r = rng.choice([0, 0, 1, rank, rng.randint(0, rank)]) if rank else 0
    r = min(r, rank)
    sh = [ss[j] if rng.random() < 0.6 else 1 for j in range(r)]
    cnt = int(np.prod(sh)) if sh else 1
    style = rng.choice(['int', 'frac', 'frac', 'big', 'mixed', 'mixed', 'tiny', 'rational'])

    def one():
        s = style if style != 'mixed' else rng.choice(['int', 'frac', 'big', 'zero', 'rational'])
        sign = rng.choice([1, -1])
        if s == 'int':
            return float(sign * rng.randint(0, max(1, N)))
        if s == 'frac':
            return sign * rng.uniform(0, max(1.0, N * 0.8))
        if s == 'big':
            return sign * (N + rng.choice([0, 0.5, 1, 3.25, N]))
        if s == 'zero':
            return rng.choice([0.0, 1e-9, -1e-9])
        if s == 'tiny':
            return rng.choice([0.0, 1e-9, -1e-9, 5e-9, 1e-8, 2e-8, -3e-8, 1e-7])
        return sign * rng.randint(0, 4 * max(1, N)) / rng.choice([2, 3, 4, 7, 10, 16])
    vals = [one() for _ in range(cnt)]
    return sh, vals


def oracle(x, a_elems, N):
    """direct evaluation: out[n, e] = 1/N sum_k X[k, e] exp(2 pi i f_k (n - a_e)), zero where n - a_e outside [0, N-1]."""
    xs = x.reshape(N, -1).astype(np.clongdouble)
    n = np.arange(N, dtype=np.longdouble)
    fk = (np.fft.fftfreq(N) * N).round().astype(np.longdouble)     # signed bin numbers
    twopi = 2 * np.pi * np.longdouble(1)
    Xk = np.exp(-1j * twopi * np.outer(fk, n) / N) @ xs
    out = np.zeros_like(xs)
    for e, a in enumerate(a_elems):
        al = np.longdouble(a)
        out[:, e] = (np.exp(1j * twopi * np.outer(n - al, fk) / N) @ Xk[:, e]) / N
        src = n - al
        out[(src < 0) | (src > N - 1), e] = 0
    return out


def bcast_elems(sh, vals, ss):
    """the shift of every element of the sample shape (C order), by numpy itself on an independent path"""
    a = np.array(vals, dtype=object).reshape(sh) if sh else np.array(vals[0], dtype=object)
    if sh:
        a = a.reshape(tuple(sh) + (1,) * (len(ss) - len(sh)))
    return list(np.broadcast_to(a, tuple(ss)).reshape(-1)) if ss else [a.item() if hasattr(a, 'item') else a]


def run(ctx):
    rng = ctx.rng
    nprng = np.random.default_rng(ctx.seed + 3)
    ctx.rule = ('signals of all classes, lengths 1..64 (odd, even, prime, 1, 2), sample shapes of rank 0..3, float32/64 and complex64/128 data, '
                'NumPy and Dask; shift arrays of every prefix rank with matching or length-1 axes, values integer / fractional / |s|>=N / '
                'mixed sign / tiny / rational, as numbers, arrays or time Quantities; crop False and True; malformed: too many dims, '
                'non-broadcastable shapes. non-trivial: at least one non-zero shift; distinct by (class, N, shapes, values, dtype).')
    ctx.trusted = ['translator T6 translate/py_shift2coq.py (loop body, accumulation, crop, ramp sign of time_shift; every other statement pinned)', 'Coq 8.16.1 kernel; stdlib real-number axioms for the value theorems over C; vm_compute on primitive floats',
                   'scipy.fft = the mathematical DFT (validated numerically against an O(N^2) longdouble oracle on every case)',
                   'numpy broadcasting / nditer order as transcribed in Model/Shift.v (validated by the exact zero-mask comparison)']
    ctx.assumptions = ['values within 2e-6*max|x| (float64 data; the complex64 phase ramp of the code is the accuracy floor) / 8e-6 (single)',
                       'shift arrays with every |s| <= 1e-8 are returned unchanged by design (np.allclose early exit): precision floor, '
                       'the zero clause is not demanded there']
    built = ctx.build(['Props/C03.vo'])
    ctx.count_obligations(VFILES)
    if built:
        ctx.assumptions_of('Props/C03.v', allowed=REAL_AX)

    items, meta = [], []
    NC = 260 if ctx.tier == 'quick' else 4000
    for c in range(NC):
        cls = rng.choice(X.CLASSES)
        N = rng.choice([1, 2, 3, 5, 7, 8, 16, 31, 64, rng.randint(1, 64)])
        ss = list(X.sample_shape(rng, cls))
        cplx = cls in ('BasebandSignal', 'DualPolarizationSignal') or (cls == 'Signal' and rng.random() < 0.5)
        single = rng.random() < 0.3
        data = nprng.standard_normal((N,) + tuple(ss)) + 2.0
        if cplx:
            data = data + 1j * nprng.standard_normal((N,) + tuple(ss))
        dt = (np.complex64 if single else np.complex128) if cplx else (np.float32 if single else np.float64)
        if cls == 'Signal' or cplx:
            data = data.astype(dt)
        else:
            data = data.astype(np.float32 if single else np.float64)
        use_dask = rng.random() < 0.15
        rate = X.rand_rate(rng)
        z = X.make_signal(rng, cls, N, sshape=tuple(ss), rate=rate, data=da.from_array(data, chunks=(-1,) + tuple(1 for _ in ss)) if use_dask else data)
        malformed = rng.random() < 0.08
        sh, vals = gen_shift(rng, N, ss)
        bad = None
        if malformed:
            bad = rng.choice(['too_many_dims', 'no_broadcast'])
            if bad == 'too_many_dims':
                sh = ss + [1]
                vals = [1.0] * int(np.prod(sh))
            else:
                if not ss:
                    bad = 'too_many_dims'
                    sh, vals = [1], [1.0]
                else:
                    sh = [ss[0] + 1] + [1] * rng.randint(0, len(ss) - 1)
                    vals = [1.5] * int(np.prod(sh))
        form = rng.choice(['number', 'number', 'quantity'])
        arr = np.array(vals, dtype=float).reshape(sh) if sh else float(vals[0])
        if form == 'quantity':
            arg = (arr / z.sample_rate).to(rng.choice([u.s, u.ms, u.us]))
            held = np.array((arg * z.sample_rate).to_value(u.one), dtype=float)
        else:
            arg = arr if (sh or rng.random() < 0.7) else (int(arr) if float(arr).is_integer() else arr)
            held = np.array(arr, dtype=float)
        hvals = [float(v) for v in held.reshape(-1)]
        tiny = all(abs(v) <= 1e-8 for v in hvals)
        inp = dict(cls=cls, N=N, ss=ss, sh=sh, vals=hvals, dtype=str(data.dtype), form=form, dask=use_dask, malformed=bad, case=c)
        ctx.seen(inp, nontrivial=any(v != 0 for v in hvals))
        ctx.count('rank%d' % len(ss)); ctx.count('shiftrank%d' % len(sh)); ctx.count('dtype:' + str(data.dtype))
        ctx.count('dask' if use_dask else 'numpy'); ctx.count('form:' + form)
        if any(a == 1 and b != 1 for a, b in zip(sh, ss)) or len(sh) < len(ss):
            ctx.count('broadcast_needed')
        err = None
        if asked_before(ctx, rng, *rng.choice([[lambda: pb.time_shift(z, arg), lambda: pb.time_shift(z, arg, crop=True), lambda: pb.time_shift(z, 0.5)], [lambda: pb.time_shift(type(z).like(z, sample_rate=z.sample_rate * 2), arg)]])):
            inp['asked_before'] = True
        try:
            y = pb.time_shift(z, arg)
            yc = pb.time_shift(z, arg, crop=True)
            yd = np.asarray(y.data.compute() if use_dask else y.data)
            ycd = np.asarray(yc.data.compute() if use_dask else yc.data)
        except ValueError as e:
            err = e
            ctx.count('raised:ValueError')
        except Exception as e:
            ctx.fail('unexpected_exception', inp, impl=repr(e))
            continue
        qvals = [Fraction(v) for v in hvals]
        ssl, shl = listlit(ss, zlit), listlit(sh, zlit)
        vl = listlit(qvals, qlit)
        if bad is not None:
            if err is None:
                ctx.fail('malformed_shift_accepted', inp)
            items.append(f'chk_idx true {N} {ssl} {shl} {vl} [-1]' if err is not None else f'chk_idx true {N} {ssl} {shl} {vl} [0]')
            meta.append(dict(inp=inp, impl='raised' if err else 'returned', kind='idx'))
            continue
        if err is not None:
            ctx.fail('valid_shift_raised', inp, impl=str(err))
            continue
        # ---- observations
        flat = yd.reshape(N, -1)
        nel = flat.shape[1]
        mask = [[int(i) for i in np.nonzero(flat[:, e] == 0)[0]] for e in range(nel)]
        a_el = bcast_elems(sh, qvals, ss)
        assert len(a_el) == nel
        # crop window observed: yc must be a contiguous window of y; find it from the lengths and the data
        lo_spec = max([0] + [math.ceil(a) for a in a_el if a >= 0])
        st_spec = min([0] + [math.floor(a) for a in a_el if a < 0])
        lo_spec_c = min(lo_spec, N)
        hi_spec = max(lo_spec_c, min(N, N + st_spec)) if N + st_spec > lo_spec else lo_spec_c
        if tiny:
            lo_spec_c, hi_spec = 0, N
        # (T) index model vs observed: noop flag, start/stop (not observable: taken from spec), crop lo/hi, zero ranges
        obs_ranges = []
        contiguous = True
        for e in range(nel):
            m = mask[e]
            if not m:
                obs_ranges += [None]
            elif m == list(range(m[0], m[-1] + 1)):
                obs_ranges += [(m[0], m[-1] + 1)]
            else:
                contiguous = False
                obs_ranges += [None]
        if not contiguous:
            ctx.fail('zero_mask_not_an_edge', inp, impl=mask)
            continue
        noop = y is z
        # crop observed
        Lc = len(yc)
        crop_lo_obs = None
        if z.start_time is not None and yc.start_time is not None:
            crop_lo_obs = int(round(float((X.sec(yc.start_time) - X.sec(z.start_time)) * X.hz(z.sample_rate))))
        items.append(f'mon_zero {N} {ssl} {shl} {vl} {listlit(mask, lambda m: listlit(m, zlit))}' if not tiny else '0')
        meta.append(dict(inp=inp, impl=mask, kind='monitor_zero'))
        # model comparison on a canonical form: zero ranges as sets (empty range == (0,0) irrespective of lo)
        items.append(f'(let r := shift_idx_flat true {N} {ssl} {shl} {vl} in '
                     f'if leqb (firstn 1 r) [{1 if noop else 0}] && leqb (firstn 2 (skipn 3 r)) [{lo_spec_c if crop_lo_obs is None else crop_lo_obs}; '
                     f'{(lo_spec_c if crop_lo_obs is None else crop_lo_obs) + Lc}] && '
                     f'leqb (flat_map (fun n => map (fun p => if in_range p n then 1 else 0) (sr_zero_of r)) (zrange {N})) '
                     f'{listlit([1 if (flat[n, e] == 0) else 0 for n in range(N) for e in range(nel)], str)} then 0 else 1)')
        meta.append(dict(inp=inp, impl=dict(noop=noop, crop=[crop_lo_obs, Lc], mask=mask), kind='idx'))
        # ---- (M) crop clause: crop=True equals crop=False minus exactly the zeroed edges
        if Lc != hi_spec - lo_spec_c:
            ctx.fail('crop_length', inp, impl=Lc, model=[lo_spec_c, hi_spec])
            continue
        if not np.array_equal(ycd, yd[lo_spec_c:hi_spec]):
            ctx.fail('crop_not_the_uncropped_window', inp, impl=Lc, model=[lo_spec_c, hi_spec])
            continue
        if z.start_time is not None:
            want = X.sec(z.start_time) + Fraction(lo_spec_c) / X.hz(z.sample_rate)
            tol = max(Fraction(100, 10 ** 12), Fraction(N + 2) / X.hz(z.sample_rate) / 10 ** 15 * 8)
            if yc.start_time is None or abs(X.sec(yc.start_time) - want) > tol:
                ctx.fail('crop_start_time', inp, impl=str(yc.start_time), model=float(want))
                continue
        elif yc.start_time is not None:
            ctx.fail('crop_start_time', inp, impl=str(yc.start_time), model=None)
            continue
        # ---- (M) metadata unchanged
        bad_meta = [k for k in ('sample_rate', 'start_time', 'center_freq', 'chan_bw', 'freq_align', 'pol_type', 'meta')
                    if hasattr(z, k) and (not hasattr(y, k) or not _same(getattr(z, k), getattr(y, k)))]
        if type(y) is not type(z) or bad_meta or y.shape != z.shape or (np.iscomplexobj(yd) != np.iscomplexobj(data)):
            ctx.fail('metadata_changed', inp, impl=dict(type=type(y).__name__, attrs=bad_meta, shape=list(y.shape), dtype=str(yd.dtype)))
            continue
        # ---- (M) values vs the independent oracle
        if not tiny:
            ref = oracle(data, a_el, N)
            if not cplx:
                ref = ref.real
            mx = float(np.max(np.abs(data)))
            tolv = (8e-6 if single else 2e-6) * mx
            e = float(np.max(np.abs(flat.astype(np.clongdouble) - ref)))
            ctx.ratio(e, tolv)
            if e > tolv:
                ctx.fail('band_limited_delay_value', inp, impl=e, model=tolv)
                continue
            # whole-sample shifts move samples (no wrap-around): covered by the oracle; additionally exact positions
            # (T) one lane through the binary64 instance of the Gallina transform
            if N <= 32 and rng.random() < 0.5:
                el = rng.randrange(nel)
                a = a_el[el]
                xs = [complex(v) for v in data.reshape(N, -1)[:, el]]
                out = [complex(v) for v in flat[:, el]]
                r = obs_ranges[el] or (0, 0)
                cl = lambda v: '(' + float_lit(v.real) + ', ' + float_lit(v.imag) + ')'
                if True:
                    items.append(f'{"chk_lane" if cplx else "chk_lane_re"} {listlit(xs, cl)} {zlit(a.numerator)} {a.denominator} {r[0]} {r[1]} {listlit(out, cl)} {float_lit(tolv)}')
                    meta.append(dict(inp=inp, impl='lane values', kind='lane'))
        ctx.count('tiny_noop' if tiny else 'shifted')

    # ---- long signals, large shifts (monitor only): the error of the single-precision ramp must not grow with |shift| or the
    # sample index.  Reference: double-precision FFT, ramp phase -s*fftfreq reduced mod 1 exactly, source-out-of-range samples zeroed.
    for c in range(6 if ctx.tier == 'quick' else 40):
        N = rng.choice([4096, 16384, 65536])
        nch = rng.choice([1, 2])
        cplx = rng.random() < 0.7
        single = rng.random() < 0.5
        data = nprng.standard_normal((N, nch)) + (1j * nprng.standard_normal((N, nch)) if cplx else 0)
        data = data.astype((np.complex64 if single else np.complex128) if cplx else (np.float32 if single else np.float64))
        z = X.make_signal(rng, 'BasebandSignal' if cplx else 'Signal', N, sshape=(nch,), rate=X.rand_rate(rng), data=data)
        svals = [rng.choice([1, -1]) * (rng.randint(N // 32, N // 2) + rng.choice([0.0, 0.25, 0.5, 0.8125])) for _ in range(nch if rng.random() < 0.5 else 1)]
        arg = np.array(svals) if len(svals) > 1 else svals[0]
        inp = dict(cls=type(z).__name__, N=N, ss=[nch], vals=[str(v) for v in svals], dtype=str(data.dtype), case='long%d' % c)
        ctx.seen(inp, nontrivial=True); ctx.count('long_signal'); ctx.count('dtype:' + str(data.dtype))
        try:
            yd = np.asarray(pb.time_shift(z, arg).data)
        except Exception as e:
            ctx.fail('valid_shift_raised', inp, impl=repr(e))
            continue
        fk = np.rint(np.fft.fftfreq(N) * N).astype(int)
        worst = 0.0
        for e_ in range(nch):
            sF = Fraction(float(svals[e_ if len(svals) > 1 else 0]))
            pn, qn = sF.numerator, sF.denominator * N
            ph = np.array([((-pn * int(k)) % qn) / qn for k in fk], dtype=float)
            ref = np.fft.ifft(np.fft.fft(data[:, e_].astype(np.complex128)) * np.exp(2j * np.pi * ph))
            jj = np.arange(N)
            ref[(jj < math.ceil(sF)) if sF >= 0 else (jj >= N + math.floor(sF))] = 0
            if not cplx:
                ref = ref.real
            worst = max(worst, float(np.max(np.abs(yd[:, e_] - ref))))
        tolv = 8e-6 * float(np.max(np.abs(data))) * 2
        ctx.ratio(worst, tolv)
        if worst > tolv or np.iscomplexobj(yd) != cplx:
            ctx.fail('band_limited_delay_value', inp, impl=worst, model=tolv)

    header = HEADER + ('Definition sr_zero_of (r : list Z) : list (Z * Z) :=\n'
                       '  (fix go (l : list Z) : list (Z * Z) := match l with a :: b :: t => (a, b) :: go t | _ => [] end) (skipn 5 r).\n')
    res = ctx.run_cases(header, items, shard=max(40, len(items) // 32 + 1))
    if res is None:
        return
    for r, m in zip(res, meta):
        if r:
            if m['kind'] == 'monitor_zero':
                ctx.fail('zero_fill_clause', m['inp'], impl=m['impl'], note=f'{r} element(s) of the sample shape are not zero exactly where the source lies outside the input')
            else:
                ctx.mismatch(f'time_shift model ({m["kind"]}) vs implementation', m['inp'], impl=m['impl'])


def _same(a, b):
    if a is None or b is None:
        return a is b
    try:
        r = (a == b)
        return bool(np.all(r))
    except Exception:
        return False
