From Coq Require Import ZArith Reals Psatz Floats.
From Flocq Require Import Core BinarySingleNaN PrimFloat Pff2Flocq.
Open Scope R_scope.

Definition R_of (x : PrimFloat.float) : R := B2R (Prim2B x).
Definition fin (x : PrimFloat.float) : Prop := is_finite (Prim2B x) = true.
Notation fexp := (FLT_exp (-1074) 53).
Notation rnd := (round radix2 fexp ZnearestE).

Lemma format_R_of (x : PrimFloat.float) : generic_format radix2 fexp (R_of x).
Proof. unfold R_of. apply (generic_format_B2R 53 1024). Qed.

Lemma add_R (x y : PrimFloat.float) : fin x -> fin y ->
  Rabs (rnd (R_of x + R_of y)) < bpow radix2 1024 ->
  R_of (PrimFloat.add x y) = rnd (R_of x + R_of y) /\ fin (PrimFloat.add x y).
Proof.
  intros Fx Fy Hb. unfold R_of, fin in *. rewrite add_equiv.
  generalize (Bplus_correct 53 1024 eq_refl eq_refl mode_NE (Prim2B x) (Prim2B y) Fx Fy).
  simpl round_mode.
  rewrite Rlt_bool_true by exact Hb.
  intros (H1 & H2 & _). split; assumption.
Qed.

Lemma sub_R (x y : PrimFloat.float) : fin x -> fin y ->
  Rabs (rnd (R_of x - R_of y)) < bpow radix2 1024 ->
  R_of (PrimFloat.sub x y) = rnd (R_of x - R_of y) /\ fin (PrimFloat.sub x y).
Proof.
  intros Fx Fy Hb. unfold R_of, fin in *. rewrite sub_equiv.
  generalize (Bminus_correct 53 1024 eq_refl eq_refl mode_NE (Prim2B x) (Prim2B y) Fx Fy).
  simpl round_mode.
  rewrite Rlt_bool_true by exact Hb.
  intros (H1 & H2 & _). split; assumption.
Qed.

Lemma rnd_bound z k : (-1074 < k)%Z -> Rabs z <= bpow radix2 k -> Rabs (rnd z) <= bpow radix2 k.
Proof.
  intros Hk Hz.
  assert (V : Valid_exp fexp) by (apply FLT_exp_valid; red; lia).
  apply abs_round_le_generic; try typeclasses eauto; [ | exact Hz].
  apply generic_format_FLT_bpow; [red; lia | lia].
Qed.

Definition two_sum (a b : PrimFloat.float) : PrimFloat.float * PrimFloat.float :=
  let x := PrimFloat.add a b in
  let eb := PrimFloat.sub x a in
  let ea := PrimFloat.sub x eb in
  let eb := PrimFloat.sub b eb in
  let ea := PrimFloat.sub a ea in
  (x, PrimFloat.add ea eb).

Lemma choiceE : forall x : Z, negb (Z.even x) = negb (negb (Z.even (- (x + 1)))).
Proof. intros x. rewrite Z.even_opp, Z.even_add. simpl. destruct (Z.even x); reflexivity. Qed.

Ltac bnd k := apply Rle_lt_trans with (bpow radix2 k); [ | apply bpow_lt; lia ].

Theorem two_sum_exact (a b : PrimFloat.float) :
  fin a -> fin b ->
  Rabs (R_of a) <= bpow radix2 1000 -> Rabs (R_of b) <= bpow radix2 1000 ->
  let '(s, e) := two_sum a b in
  fin s /\ fin e /\ R_of s = rnd (R_of a + R_of b) /\ R_of s + R_of e = R_of a + R_of b.
Proof.
  intros Fa Fb Ba Bb. unfold two_sum.
  set (A := R_of a) in *. set (B := R_of b) in *.
  assert (T: forall u v k, Rabs u <= bpow radix2 k -> Rabs v <= bpow radix2 k ->
             Rabs (u + v) <= bpow radix2 (k+1) /\ Rabs (u - v) <= bpow radix2 (k+1)).
  { intros u v k Hu Hv. rewrite bpow_plus_1. change (IZR radix2) with 2.
    split; [ apply Rle_trans with (1:=Rabs_triang _ _) | unfold Rminus; apply Rle_trans with (1:=Rabs_triang _ _); rewrite Rabs_Ropp ]; lra. }
  (* s *)
  destruct (T A B 1000%Z Ba Bb) as [H1 _].
  pose proof (rnd_bound _ 1001%Z ltac:(lia) H1) as H1'.
  destruct (add_R a b Fa Fb) as [Es Fs]. { bnd 1001%Z. exact H1'. }
  fold A B in Es. set (s := PrimFloat.add a b) in *. set (S := R_of s) in *.
  assert (Ba1 : Rabs A <= bpow radix2 1001) by (apply Rle_trans with (1:=Ba); apply bpow_le; lia).
  assert (BS : Rabs S <= bpow radix2 1001) by (rewrite Es; exact H1').
  (* eb = s - a *)
  destruct (T S A 1001%Z BS Ba1) as [_ H2]. pose proof (rnd_bound _ 1002%Z ltac:(lia) H2) as H2'.
  destruct (sub_R s a Fs Fa) as [Eeb Feb]. { bnd 1002%Z. exact H2'. }
  fold S A in Eeb. set (eb := PrimFloat.sub s a) in *. set (EB := R_of eb) in *.
  assert (BEB : Rabs EB <= bpow radix2 1002) by (rewrite Eeb; exact H2').
  assert (BS2 : Rabs S <= bpow radix2 1002) by (apply Rle_trans with (1:=BS); apply bpow_le; lia).
  (* ea = s - eb *)
  destruct (T S EB 1002%Z BS2 BEB) as [_ H3]. pose proof (rnd_bound _ 1003%Z ltac:(lia) H3) as H3'.
  destruct (sub_R s eb Fs Feb) as [Eea Fea]. { bnd 1003%Z. exact H3'. }
  fold S EB in Eea. set (ea := PrimFloat.sub s eb) in *. set (EA := R_of ea) in *.
  (* eb' = b - eb *)
  assert (Bb2 : Rabs B <= bpow radix2 1002) by (apply Rle_trans with (1:=Bb); apply bpow_le; lia).
  destruct (T B EB 1002%Z Bb2 BEB) as [_ H4]. pose proof (rnd_bound _ 1003%Z ltac:(lia) H4) as H4'.
  destruct (sub_R b eb Fb Feb) as [Eeb' Feb']. { bnd 1003%Z. exact H4'. }
  fold B EB in Eeb'. set (eb' := PrimFloat.sub b eb) in *. set (EB' := R_of eb') in *.
  (* ea' = a - ea *)
  assert (BEA : Rabs EA <= bpow radix2 1003) by (rewrite Eea; exact H3').
  assert (Ba3 : Rabs A <= bpow radix2 1003) by (apply Rle_trans with (1:=Ba); apply bpow_le; lia).
  destruct (T A EA 1003%Z Ba3 BEA) as [_ H5]. pose proof (rnd_bound _ 1004%Z ltac:(lia) H5) as H5'.
  destruct (sub_R a ea Fa Fea) as [Eea' Fea']. { bnd 1004%Z. exact H5'. }
  fold A EA in Eea'. set (ea' := PrimFloat.sub a ea) in *. set (EA' := R_of ea') in *.
  (* e = ea' + eb' *)
  assert (BEA' : Rabs EA' <= bpow radix2 1004) by (rewrite Eea'; exact H5').
  assert (BEB' : Rabs EB' <= bpow radix2 1004) by (rewrite Eeb'; apply Rle_trans with (1:=H4'); apply bpow_le; lia).
  destruct (T EA' EB' 1004%Z BEA' BEB') as [H6 _]. pose proof (rnd_bound _ 1005%Z ltac:(lia) H6) as H6'.
  destruct (add_R ea' eb' Fea' Feb') as [Ee Fe]. { bnd 1005%Z. exact H6'. }
  fold EA' EB' in Ee.
  split; [exact Fs|]. split; [exact Fe|]. split; [exact Es|].
  fold S. rewrite Ee, Eea', Eeb', Eea, Eeb, Es.
  apply (TwoSum_correct (-1074) 53 (fun x => negb (Z.even x))); try lia.
  - exact choiceE.
  - apply format_R_of.
  - apply format_R_of.
Qed.

