(* Proofs/BandGen.v -- C02: the band arithmetic of Model/Band IS the arithmetic translated from RadioSignal (Gen/GenBand.v, regenerated
   from core.py on every run by T4): the channel label formula, bandwidth, band edges, the two assertions of _freq_slice, the new centre
   frequency and the alignment name it sets.  A source change (another sign, f[1] for f[0], a dropped assertion, another alignment)
   changes the generated terms and breaks these lemmas. *)
From Coq Require Import ZArith QArith Bool String Lia.
From PB Require Import Lib.PySlice Model.Band Gen.GenBand.
Open Scope Z_scope.

Theorem label_generated b i : label b i = gen_label b i.
Proof. reflexivity. Qed.
Theorem bandwidth_generated b : bandwidth b = gen_bandwidth b.
Proof. reflexivity. Qed.
Theorem max_freq_generated b : max_freq b = gen_max_freq b.
Proof. reflexivity. Qed.
Theorem min_freq_generated b : min_freq b = gen_min_freq b.
Proof. reflexivity. Qed.

(* the alignment the slice sets, by the name the source writes *)
Theorem fs_align_generated : align_name 1 = gen_fs_align.
Proof. reflexivity. Qed.

Theorem freq_slice_generated (b : band) (a c st : option Z) :
  freq_slice b a c st =
  match st with
  | Some 0 => BErr 3
  | _ =>
    if (match st with None => 1 | Some s => s end) <? 0 then BErr 2 else
    match slice_indices a c st (nchan b) with
    | None => BErr 2
    | Some (lo, hi, s) =>
      if negb (gen_fs_guard1 lo hi s) then BErr 2
      else if negb (gen_fs_guard2 lo hi s) then BErr 2
      else BOk (mk_band (gen_fs_center b lo hi s) (bw b) (hi - lo) 1) lo
    end
  end.
Proof. reflexivity. Qed.
