(* Proofs/PhaseGen.v -- C07 / C15: the two-double core of the model, Model/Phase2.day_frac_gen, IS the function translated statement by
   statement from pulsar/phase.py day_frac (Gen/GenPhase.v, regenerated on every run by T7): the same IEEE operations in the same order, for
   every combination of factor / divisor present or absent. *)
From Coq Require Import ZArith Bool PrimFloat.
From PB Require Import Model.Phase2 Gen.GenPhase.
Open Scope float_scope.

Theorem day_frac_generated (val1 val2 : float) (factor divisor : option float) :
  day_frac_gen val1 val2 factor divisor = gen_day_frac val1 val2 factor divisor.
Proof. destruct factor, divisor; reflexivity. Qed.

(* the two specialisations the arithmetic theorems are stated about *)
Theorem day_frac_plain_generated (val1 val2 : float) : day_frac val1 val2 = gen_day_frac val1 val2 None None.
Proof. reflexivity. Qed.
Theorem day_frac_factor_generated (val1 val2 factor : float) : day_frac_factor val1 val2 factor = gen_day_frac val1 val2 (Some factor) None.
Proof. reflexivity. Qed.

(* Phase.from_angles: the purely-real / purely-imaginary bookkeeping (which inputs are refused, when factor and divisor are negated, how
   the imaginary flag is combined) and the hand-over to day_frac *)
Theorem from_angles_generated (p1 : num) (p2 factor divisor : option num) :
  from_angles p1 p2 factor divisor = gen_from_angles p1 p2 factor divisor.
Proof.
  unfold from_angles, gen_from_angles.
  destruct (check_imaginary p1) as [[v1 i1]|]; [|reflexivity].
  destruct p2 as [n2|].
  - destruct (check_imaginary n2) as [[v2 i2]|]; [|reflexivity].
    destruct (Bool.eqb i2 i1); cbn [negb]; [|reflexivity].
    destruct factor as [f|].
    + destruct (check_imaginary f) as [[fv imf]|]; [|reflexivity].
      destruct divisor as [d|].
      * destruct (check_imaginary d) as [[dv imd]|]; [|reflexivity]. rewrite day_frac_generated. reflexivity.
      * rewrite day_frac_generated. reflexivity.
    + destruct divisor as [d|].
      * destruct (check_imaginary d) as [[dv imd]|]; [|reflexivity]. rewrite day_frac_generated. reflexivity.
      * rewrite day_frac_generated. reflexivity.
  - destruct factor as [f|].
    + destruct (check_imaginary f) as [[fv imf]|]; [|reflexivity].
      destruct divisor as [d|].
      * destruct (check_imaginary d) as [[dv imd]|]; [|reflexivity]. rewrite day_frac_generated. reflexivity.
      * rewrite day_frac_generated. reflexivity.
    + destruct divisor as [d|].
      * destruct (check_imaginary d) as [[dv imd]|]; [|reflexivity]. rewrite day_frac_generated. reflexivity.
      * rewrite day_frac_generated. reflexivity.
Qed.

(* the branches of Phase.__array_ufunc__: what each hands to from_angles (or compares with zero) *)
Theorem op_addsub_generated (sub : bool) (a b : operand) :
  op_addsub sub a b =
  match to_phase a, to_phase b with
  | Some pa, Some pb =>
    if Bool.eqb (p_imag pa) (p_imag pb) then
      let args := gen_addsub_args (if sub then nsub else nadd) pa pb in
      of_opt (from_angles (fst args) (Some (snd args)) None None)
    else RDecay
  | _, _ => RErr
  end.
Proof. reflexivity. Qed.
Theorem phase_diff_generated (a b : ph) : phase_diff a b = gen_cmp_diff a b.
Proof. reflexivity. Qed.
Theorem op_mul_generated (p : ph) (f : num) :
  op_mul p f = match (let '(a, b, fc, dv) := gen_mul_args p f in from_angles a (Some b) fc dv) with Some r => RPh r | None => RDecay end.
Proof. reflexivity. Qed.
Theorem op_div_generated (p : ph) (d : num) :
  op_div p d = match (let '(a, b, fc, dv) := gen_div_args p d in from_angles a (Some b) fc dv) with Some r => RPh r | None => RDecay end.
Proof. reflexivity. Qed.
Theorem op_neg_generated (p : ph) : op_neg p = of_opt (from_angles (fst (gen_neg_args p)) (Some (snd (gen_neg_args p))) None None).
Proof. reflexivity. Qed.
Theorem op_pos_generated (p : ph) : op_pos p = of_opt (from_angles (fst (gen_pos_args p)) (Some (snd (gen_pos_args p))) None None).
Proof. reflexivity. Qed.
Theorem op_abs_generated (p : ph) :
  op_abs p = of_opt (let '(a, b, s) := gen_abs_args p in from_angles a (Some b) (Some s) None).
Proof. reflexivity. Qed.
