(* Proofs/PhaseMore.v -- C07: subtraction, negation, construction and the link between the general model functions of
   Model/Phase2.v (day_frac_gen, from_angles, the op_ functions) and the functions the soundness theorems are about. *)
From Coq Require Import ZArith Reals Psatz Floats Bool.
From Flocq Require Import Core BinarySingleNaN PrimFloat.
From Coquelicot Require Import Complex.
From PB Require Import Proofs.TwoSumExact Model.Phase2 Proofs.Floor Proofs.DayFrac Proofs.DayFrac3 Proofs.DayFracTail Proofs.DayFracFold Proofs.PhaseAdd.
Open Scope R_scope.

Notation fexp := (FLT_exp (-1074) 53).
Notation rnd := (round radix2 fexp ZnearestE).

(* the general day_frac without factor / divisor IS the function of day_frac_sound *)
Lemma day_frac_gen_none v1 v2 : day_frac_gen v1 v2 None None = day_frac v1 v2.
Proof. unfold day_frac_gen, day_frac, df_tail, day_frac0, df_tail0. destruct (Phase2.two_sum v1 v2) as [s e]. reflexivity. Qed.

(* Phase - Phase *)
Definition phase_sub (i1 f1 i2 f2 : PrimFloat.float) : PrimFloat.float * PrimFloat.float :=
  day_frac (PrimFloat.sub i1 i2) (PrimFloat.sub f1 f2).

Theorem phase_sub_sound (i1 f1 i2 f2 : PrimFloat.float) (k1 k2 : Z) :
  fin i1 -> fin f1 -> fin i2 -> fin f2 ->
  R_of i1 = IZR k1 -> R_of i2 = IZR k2 -> (Z.abs k1 <= 2 ^ 51 - 1)%Z -> (Z.abs k2 <= 2 ^ 51 - 1)%Z ->
  Rabs (R_of f1) <= / 2 -> Rabs (R_of f2) <= / 2 ->
  let '(d, f) := phase_sub i1 f1 i2 f2 in
  fin d /\ fin f /\ (exists k : Z, R_of d = IZR k) /\
  Rabs (R_of d + R_of f - ((R_of i1 + R_of f1) - (R_of i2 + R_of f2))) <= bpow radix2 (-52) /\
  Rabs (R_of f) <= / 2.
Proof.
  intros Fi1 Ff1 Fi2 Ff2 E1 E2 K1 K2 B1 B2. unfold phase_sub.
  assert (P51 : bpow radix2 52 = IZR (2 ^ 52)) by (simpl; lra).
  assert (P53 : bpow radix2 53 = IZR (2 ^ 53)) by (simpl; lra).
  assert (HI : R_of (PrimFloat.sub i1 i2) = IZR (k1 - k2) /\ fin (PrimFloat.sub i1 i2)).
  { destruct (sub_R i1 i2 Fi1 Fi2) as [E F].
    - rewrite E1, E2, <- minus_IZR, rnd_IZR by lia. apply Rlt_le_trans with (bpow radix2 53); [|apply bpow_le; lia].
      rewrite P53, <- abs_IZR. apply IZR_lt. lia.
    - rewrite E1, E2, <- minus_IZR, rnd_IZR in E by lia. split; assumption. }
  destruct HI as [EI FI].
  apply Rabs_le_inv in B1. apply Rabs_le_inv in B2.
  assert (HF : R_of (PrimFloat.sub f1 f2) = rnd (R_of f1 - R_of f2) /\ fin (PrimFloat.sub f1 f2)).
  { apply sub_R; try assumption. apply Rle_lt_trans with (bpow radix2 1); [|apply bpow_lt; lia].
    apply rnd_bound; [lia|]. simpl. apply Rabs_le. lra. }
  destruct HF as [EF FF].
  assert (Herr : Rabs (rnd (R_of f1 - R_of f2) - (R_of f1 - R_of f2)) <= bpow radix2 (-54)).
  { destruct (Rlt_or_le (Rabs (R_of f1 - R_of f2)) 1) as [Hlt|Hge].
    - apply (err_lt _ 0); [lia|exact Hlt].
    - assert (R_of f1 - R_of f2 = 1 \/ R_of f1 - R_of f2 = -1) as [-> | ->].
      { unfold Rabs in Hge. destruct (Rcase_abs (R_of f1 - R_of f2)); [right|left]; lra. }
      + rewrite (rnd_IZR 1) by (simpl; lia). rewrite Rminus_diag_eq, Rabs_R0 by reflexivity. apply bpow_ge_0.
      + rewrite (rnd_IZR (-1)) by (simpl; lia). rewrite Rminus_diag_eq, Rabs_R0 by reflexivity. apply bpow_ge_0. }
  assert (BF : Rabs (rnd (R_of f1 - R_of f2)) <= 1).
  { change 1 with (bpow radix2 0). apply rnd_bound; [lia|]. simpl. apply Rabs_le. lra. }
  pose proof (day_frac_sound (PrimFloat.sub i1 i2) (PrimFloat.sub f1 f2) FI FF) as H.
  rewrite EI, EF in H.
  assert (Hk : (Z.abs (k1 - k2) <= 2 ^ 52 - 2)%Z) by lia.
  assert (HkR : Rabs (IZR (k1 - k2)) <= IZR (2 ^ 52 - 2)) by (rewrite <- abs_IZR; apply IZR_le; exact Hk).
  rewrite (minus_IZR (2 ^ 52) 2) in HkR. rewrite <- P51 in HkR.
  specialize (H ltac:(apply Rle_trans with (bpow radix2 52); [lra|apply bpow_le; lia])
                ltac:(apply Rle_trans with 1; [exact BF|change 1 with (bpow radix2 0); apply bpow_le; lia])
                ltac:(apply Rle_trans with (1:=Rabs_triang _ _); lra)).
  destruct (day_frac (PrimFloat.sub i1 i2) (PrimFloat.sub f1 f2)) as [d f].
  destruct H as (Fd & Ff & Hint & Hacc & Hnorm).
  split; [exact Fd|]. split; [exact Ff|]. split; [exact Hint|]. split; [|exact Hnorm].
  rewrite E1, E2.
  replace (R_of d + R_of f - (IZR k1 + R_of f1 - (IZR k2 + R_of f2)))
    with ((R_of d + R_of f - (IZR (k1 - k2) + rnd (R_of f1 - R_of f2))) + (rnd (R_of f1 - R_of f2) - (R_of f1 - R_of f2)))
    by (rewrite minus_IZR; ring).
  apply Rle_trans with (1:=Rabs_triang _ _).
  assert (bpow radix2 (-52) = bpow radix2 (-53) + 2 * bpow radix2 (-54)).
  { change (-52)%Z with (-53 + 1)%Z. change (-53)%Z with (-54 + 1)%Z at 1 2. rewrite !bpow_S. ring. }
  pose proof (bpow_ge_0 radix2 (-54)). lra.
Qed.

(* -Phase : day_frac(-int, -frac); negation is exact, so the only error is day_frac's 2^-53 *)
Theorem phase_neg_sound (i f : PrimFloat.float) :
  fin i -> fin f -> Rabs (R_of i) <= bpow radix2 52 - 1 -> Rabs (R_of f) <= / 2 ->
  let '(d, g) := day_frac (PrimFloat.opp i) (PrimFloat.opp f) in
  fin d /\ fin g /\ (exists k : Z, R_of d = IZR k) /\
  Rabs (R_of d + R_of g - (- (R_of i + R_of f))) <= bpow radix2 (-53) /\
  Rabs (R_of g) <= / 2.
Proof.
  intros Fi Ff Bi Bf.
  destruct (opp_R i) as [Ei Fi']. destruct (opp_R f) as [Ef Ff'].
  pose proof (day_frac_sound (PrimFloat.opp i) (PrimFloat.opp f) (Fi' Fi) (Ff' Ff)) as H.
  rewrite Ei, Ef, !Rabs_Ropp in H.
  assert (B52 : 1 <= bpow radix2 52) by (change 1 with (bpow radix2 0); apply bpow_le; lia).
  assert (B53 : bpow radix2 52 <= bpow radix2 53) by (apply bpow_le; lia).
  specialize (H ltac:(lra) ltac:(lra)).
  assert (Hs : Rabs (- R_of i + - R_of f) <= bpow radix2 52).
  { replace (- R_of i + - R_of f) with (- (R_of i + R_of f)) by ring. rewrite Rabs_Ropp.
    apply Rle_trans with (1:=Rabs_triang _ _). lra. }
  specialize (H Hs).
  destruct (day_frac (PrimFloat.opp i) (PrimFloat.opp f)) as [d g].
  destruct H as (Fd & Fg & Hint & Hacc & Hnorm).
  split; [exact Fd|]. split; [exact Fg|]. split; [exact Hint|]. split; [|exact Hnorm].
  replace (- (R_of i + R_of f)) with (- R_of i + - R_of f) by ring. exact Hacc.
Qed.

(* Phase(x) and Phase(x, y) from doubles: day_frac x 0 / day_frac x y *)
Theorem phase_construct_sound (x y : PrimFloat.float) :
  fin x -> fin y -> Rabs (R_of x) <= bpow radix2 53 -> Rabs (R_of y) <= bpow radix2 53 ->
  Rabs (R_of x + R_of y) <= bpow radix2 52 ->
  let '(d, g) := day_frac_gen x y None None in
  fin d /\ fin g /\ (exists k : Z, R_of d = IZR k) /\
  Rabs (R_of d + R_of g - (R_of x + R_of y)) <= bpow radix2 (-53) /\
  Rabs (R_of g) <= / 2.
Proof. intros. rewrite day_frac_gen_none. apply day_frac_sound; assumption. Qed.

(* ---------- the model's ufunc branches reduce to the functions above (real phases) ---------- *)
Lemma op_add_real (a b : ph) : p_imag a = false -> p_imag b = false ->
  op_addsub false (OPh a) (OPh b) =
  let '(d, f) := phase_add (p_int a) (p_frac a) (p_int b) (p_frac b) in RPh {| p_int := d; p_frac := f; p_imag := false |}.
Proof. intros Ha Hb. unfold op_addsub, to_phase. rewrite Ha, Hb. cbn [Bool.eqb part nadd from_angles check_imaginary of_opt].
  rewrite day_frac_gen_none. unfold phase_add. destruct (day_frac _ _). reflexivity. Qed.
Lemma op_sub_real (a b : ph) : p_imag a = false -> p_imag b = false ->
  op_addsub true (OPh a) (OPh b) =
  let '(d, f) := phase_sub (p_int a) (p_frac a) (p_int b) (p_frac b) in RPh {| p_int := d; p_frac := f; p_imag := false |}.
Proof. intros Ha Hb. unfold op_addsub, to_phase. rewrite Ha, Hb. cbn [Bool.eqb part nsub from_angles check_imaginary of_opt].
  rewrite day_frac_gen_none. unfold phase_sub. destruct (day_frac _ _). reflexivity. Qed.
Lemma op_neg_real (a : ph) : p_imag a = false ->
  op_neg a = let '(d, f) := day_frac (PrimFloat.opp (p_int a)) (PrimFloat.opp (p_frac a)) in RPh {| p_int := d; p_frac := f; p_imag := false |}.
Proof. intros Ha. unfold op_neg. rewrite Ha. cbn [Bool.eqb part nneg from_angles check_imaginary of_opt].
  rewrite day_frac_gen_none. destruct (day_frac _ _). reflexivity. Qed.

(* ---------- imaginary flags: the sign / flag rules of from_angles are complex multiplication and division ---------- *)
Definition cplx (im : bool) (x : R) : C := if im then (0, x) else (x, 0).
(* factor: negated iff both imaginary; flag = xor *)
Lemma factor_rule (a b : bool) (x f : R) :
  Cmult (cplx a x) (cplx b f) = cplx (xorb a b) (x * (if b && a then - f else f)).
Proof. destruct a, b; unfold cplx, Cmult; cbn [fst snd andb xorb]; f_equal; ring. Qed.
(* divisor: negated iff the divisor is imaginary and the phase (so far) real; flag = xor *)
Lemma divisor_rule (a b : bool) (x d : R) : d <> 0 ->
  Cdiv (cplx a x) (cplx b d) = cplx (xorb a b) (x / (if b && negb a then - d else d)).
Proof.
  intros Hd. destruct a, b; unfold cplx, Cdiv, Cinv, Cmult; cbn [fst snd andb negb xorb]; f_equal; field; lra.
Qed.
(* i * i = -1 as the property words it *)
Corollary i_times_i (x f : R) : Cmult (cplx true x) (cplx true f) = cplx false (- (x * f)).
Proof. rewrite factor_rule. cbn. f_equal. unfold cplx. f_equal. ring. Qed.

(* the model's from_angles applies exactly these rules *)
Lemma from_angles_factor_flags v1 v2 fv (im imf : bool) :
  let n1 := if im then NCplx 0 v1 else NReal v1 in
  let n2 := if im then NCplx 0 v2 else NReal v2 in
  let nf := if imf then NCplx 0 fv else NReal fv in
  is0 v1 = false -> is0 v2 = false -> is0 fv = false ->
  from_angles n1 (Some n2) (Some nf) None =
  let '(c, f) := day_frac_gen v1 v2 (Some (if imf && im then PrimFloat.opp fv else fv)) None in
  Some {| p_int := c; p_frac := f; p_imag := xorb im imf |}.
Proof.
  intros n1 n2 nf H1 H2 H3. unfold n1, n2, nf, from_angles, check_imaginary.
  assert (Z0 : is0 0%float = true) by reflexivity.
  destruct im, imf; rewrite ?Z0, ?H1, ?H2, ?H3; cbn [Bool.eqb andb xorb negb]; destruct (day_frac_gen _ _ _ _); reflexivity.
Qed.
