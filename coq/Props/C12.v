(* Props/C12.v -- snippet returns exactly n samples starting exactly at the requested time. *)
From Coq Require Import ZArith QArith Qround Reals.
From Coquelicot Require Import Complex.
From PB Require Import Lib.PySlice Lib.Dft Lib.DftC Model.Ledger Model.Shift Model.Snippet Proofs.SnippetProofs Proofs.ShiftC Proofs.SnippetC Gen.GenSnippet Proofs.SnippetGen.
Open Scope Z_scope.

(* t: the start in samples as the double the code holds; tn: the double the code obtains for t + n;
   in_range l t tn n := 0 <= n /\ 0 <= t /\ tn <= len l   (exactly the code's bounds test);
   sum_ok t tn n := t + n - tn <= 1e-8   (true of every IEEE double sum below 2^26) *)
Theorem C12_errors : forall l t tn n, 0 <= len l -> (0 < rate l)%Q -> sum_ok t tn n ->
  (snippet l t tn n = SErr 1 <-> ~ in_range l t tn n) /\ (forall e, snippet l t tn n = SErr e -> e = 1).
Proof. exact snippet_errors. Qed.

Theorem C12_len_start : forall l t tn n, 0 <= len l -> (0 < rate l)%Q -> sum_ok t tn n -> in_range l t tn n ->
  exists l' fr sh, snippet l t tn n = SOk l' (Qfloor t) fr sh /\
    len l' = n /\ rate l' = rate l /\ (fr == t - inject_Z (Qfloor t))%Q /\ (0 <= fr < 1)%Q /\
    (fr == 0 -> sh = false)%Q /\
    match t0 l, t0 l' with
    | Some a, Some a' => (a' == a + t / rate l)%Q
    | None, None => True
    | _, _ => False end.
Proof. exact snippet_ok. Qed.

Theorem C12_whole : forall l ti n, 0 <= len l -> 0 <= n -> 0 <= ti -> ti + n <= len l ->
  snippet l (inject_Z ti) (inject_Z (ti + n)) n =
  match step l (OSnippet ti n) with Ok l' off _ => SOk l' off 0 false | Err e => SErr e end.
Proof. exact snippet_whole. Qed.

(* values at a fractional start, over the complex numbers, every n >= 1: snippet shifts the whole signal by a = floor(t) - t in
   (-1, 0) (ramp exp(-2 pi i a fftfreq(k)/n), exactly the code's), which zero-fills only the last sample (cropped), and takes samples
   floor(t) + k.  For a tone at bin k0 sample k of the result is the band-limited continuation of that tone evaluated at t + k
   (tone_at k0 tau := exp(2 pi i fftfreq(k0) tau / n); at integer tau it is the tone itself); the operation is linear
   (Lib/Dft.diag_linear), which fixes the result for every input. *)
Theorem C12_not_zeroed : forall N a m, (-1 < a)%Q -> (a < 0)%Q -> 0 <= m -> m <= N - 2 -> Shift.in_range (zero_range N a) m = false.
Proof. exact snippet_not_zeroed. Qed.
Theorem C12_value_tone : forall (n : nat), (0 < n)%nat -> forall (t : R) (i k k0 : nat) (r : Z * Z), (k0 < n)%nat ->
  Shift.in_range r (Z.of_nat (i + k)) = false ->
  tshiftC n (ramp n (INR i - t)) r (tone C (W n) k0) (i + k) = tone_at n k0 (t + INR k).
Proof. exact snippet_tone. Qed.
Theorem C12_tone_at_samples : forall (n : nat), (0 < n)%nat -> forall (k0 m : nat), (k0 < n)%nat ->
  tone_at n k0 (INR m) = tone C (W n) k0 m.
Proof. exact tone_at_int. Qed.
(* the numerical side (scipy.fft = this DFT, rounding) is checked by the harness against an independent O(N^2) evaluation. *)

(* tie to the source by translation (T6): the length check, the out-of-bounds test, the fractional-start test, shift = i - t, the new
   start time and the final slice of the model ARE the terms GENERATED from transforms.snippet on this run *)
Theorem C12_generated : forall (l : ledger) (t tn : Q) (n : Z),
  snippet l t tn n =
  if gen_snip_bad_n n then SErr 1 else
  if gen_snip_oob t tn (len l) then SErr 1 else
  let i := gen_snip_i t in
  if gen_snip_fractional i t then
    let shift := gen_snip_shift i t in
    let new_t0 := gen_snip_new_start (t0 l) shift (1 / rate l) in
    let l1 := if tiny shift then {| t0 := new_t0; rate := rate l; len := len l |}
              else match step l (OShiftCrop 0 (-1)) with
                   | Ok l' _ _ => {| t0 := new_t0; rate := rate l; len := len l' |}
                   | Err _ => l end in
    match time_slice l1 (fst (gen_snip_slice i n)) (snd (gen_snip_slice i n)) None with
    | Ok l2 off _ => SOk l2 off (t - inject_Z i)%Q (negb (tiny shift))
    | Err e => SErr e
    end
  else
    match time_slice l (fst (gen_snip_slice i n)) (snd (gen_snip_slice i n)) None with
    | Ok l2 off _ => SOk l2 off 0 false
    | Err e => SErr e
    end.
Proof. exact snippet_generated. Qed.

Print Assumptions C12_errors.
Print Assumptions C12_len_start.
Print Assumptions C12_whole.
Print Assumptions C12_value_tone.
Print Assumptions C12_generated.
