(* Props/C12.v -- snippet returns exactly n samples starting exactly at the requested time. *)
From Coq Require Import ZArith QArith Qround.
From PB Require Import Model.Ledger Model.Snippet Proofs.SnippetProofs.
Open Scope Z_scope.

(* t: the start in samples as the double the code holds; tn: the double the code obtains for t + n;
   in_range l t tn n := 0 <= n /\ 0 <= t /\ tn <= len l   (exactly the code's bounds test);
   sum_ok t tn n := t + n - tn <= 1e-8   (true of every IEEE double sum below 2^26) *)
Theorem C12_errors : forall l t tn n, 0 <= len l -> (0 < rate l)%Q -> sum_ok t tn n ->
  (snippet l t tn n = SErr 1 <-> ~ in_range l t tn n) /\ (forall e, snippet l t tn n = SErr e -> e = 1).
Proof. exact snippet_errors. Qed.

Theorem C12_len_start : forall l t tn n, 0 <= len l -> (0 < rate l)%Q -> sum_ok t tn n -> in_range l t tn n ->
  exists l' fr sh, snippet l t tn n = SOk l' (Qfloor t) fr sh /\
    len l' = n /\ rate l' = rate l /\ (fr == t - inject_Z (Qfloor t))%Q /\ (0 <= fr < 1)%Q /\
    (fr == 0 -> sh = false)%Q /\
    match t0 l, t0 l' with
    | Some a, Some a' => (a' == a + t / rate l)%Q
    | None, None => True
    | _, _ => False end.
Proof. exact snippet_ok. Qed.

Theorem C12_whole : forall l ti n, 0 <= len l -> 0 <= n -> 0 <= ti -> ti + n <= len l ->
  snippet l (inject_Z ti) (inject_Z (ti + n)) n =
  match step l (OSnippet ti n) with Ok l' off _ => SOk l' off 0 false | Err e => SErr e end.
Proof. exact snippet_whole. Qed.

(* C12_value (sample k is the DFT interpolant of z at t + k): see Props/C03.v (shift theorem); the
   composition "shift by floor(t) - t, then take samples floor(t) .. floor(t)+n-1" is checked numerically
   against an independent O(N^2) evaluation of the interpolant by the harness. *)
Print Assumptions C12_errors.
Print Assumptions C12_len_start.
Print Assumptions C12_whole.
