(* Proofs/ReaderGen.v -- C11: the position arithmetic of Model/Reader IS that translated from readers/_base.py and the file range of
   BasebandReader._read_baseband (Gen/GenReader.v, regenerated on every run by T13). *)
From Coq Require Import ZArith QArith Bool.
From PB Require Import Model.Disp Model.Reader Gen.GenReader.
Open Scope Z_scope.

Theorem time_rel_generated r k : time_rel r k = gen_time_rel r k.
Proof. reflexivity. Qed.
Theorem time_at_generated r k : time_at r k = gen_time_at r k.
Proof. reflexivity. Qed.
Theorem offset_rel_generated r dt : offset_rel r dt = gen_offset_rel r dt.
Proof. reflexivity. Qed.
Theorem offset_at_generated r t : offset_at r t = match r_t0 r with Some t0 => gen_offset_rel r (t - t0)%Q | None => None end.
Proof. reflexivity. Qed.
Theorem read_generated r offset n :
  read r offset n =
  if gen_read_bad_offset offset then RErr 1 else if gen_read_bad_n n then RErr 1
  else if gen_read_beyond r offset n then RErr 2
  else ROk n (gen_read_start r offset) (fst (gen_file_range (r_real r) offset n)) (snd (gen_file_range (r_real r) offset n)).
Proof.
  unfold read, gen_read_bad_offset, gen_read_bad_n, gen_read_beyond, gen_read_start, gen_file_range.
  destruct (offset <? 0); [reflexivity|]. destruct (n <? 0); [reflexivity|]. destruct (r_len r <? offset + n); [reflexivity|].
  destruct (r_real r); reflexivity.
Qed.
(* a lazy read wraps exactly one delayed eager read of the same (offset, n) and then only rechunks it (pinned syntax of _read_data) *)
Theorem lazy_read_generated : gen_lazy_read_is_one_delayed_read = true.
Proof. reflexivity. Qed.
(* a per-thread sideband mask is coerced to booleans before it selects the threads to conjugate (pinned syntax of the setter) *)
Theorem sideband_mask_generated : gen_sideband_mask_is_boolean = true.
Proof. reflexivity. Qed.
