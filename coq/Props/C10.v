(* Props/C10.v -- concatenate is the inverse of splitting and refuses non-contiguous pieces. *)
From Coq Require Import ZArith QArith Qabs List.
From PB Require Import Model.Ledger Model.Band Model.Concat Proofs.ConcatProofs Proofs.ConcatMore Proofs.ConcatAssoc Proofs.ConcatGroup Gen.GenConcat Proofs.ConcatGen.
Import ListNotations.
Open Scope Z_scope.

(* time axis, every tolerance eps >= 0 and rt >= 0, every cut list (repeats, end points, empty pieces)
   and every pattern of erased start times: class, length, rate, start time (whenever any piece kept one)
   and channel labels of the original are reproduced *)
Theorem C10_split_concat_time : forall eps rt s c1 k cs,
  (0 <= eps)%Q -> (0 <= rt)%Q -> (0 < rate (s_led s))%Q ->
  (match s_band s with Some b => (0 <= bw b)%Q | None => True end) ->
  last_cut 0 ((c1, k) :: cs) = len (s_led s) ->
  exists s', concat eps rt 0 (tsplit s ((c1, k) :: cs)) = COk s' /\
    s_cls s' = s_cls s /\ len (s_led s') = len (s_led s) /\ rate (s_led s') = rate (s_led s) /\
    ref_ok (s_led s) (t0 (s_led s')) /\
    (t0 (s_led s') = None -> t0 (s_led s) = None \/ forall c b, In (c, b) ((c1, k) :: cs) -> b = false) /\
    band_labels_eq (s_band s') (s_band s).
Proof. exact split_concat_time. Qed.

Theorem C10_reject_class : forall eps rt axis p0 rest,
  (exists p, In p rest /\ s_cls p <> s_cls p0) -> concat eps rt axis (p0 :: rest) = CErr 4.
Proof. exact reject_other_class. Qed.

Theorem C10_reject_time_gap : forall eps rt c r tp np nq bnd d,
  (0 <= rt)%Q -> (0 < r)%Q -> (eps < 1 / r)%Q -> (1 <= Qabs d)%Q ->
  let p := {| s_cls := c; s_led := {| t0 := Some tp; rate := r; len := np |}; s_band := bnd |} in
  let q := {| s_cls := c; s_led := {| t0 := Some (tp + (inject_Z np + d) / r)%Q; rate := r; len := nq |}; s_band := bnd |} in
  concat eps rt 0 [p; q] = CErr 1.
Proof. exact reject_time_gap. Qed.

Theorem C10_reject_freq_gap : forall eps rt c l x y d,
  (0 <= rt)%Q -> (rt < 1)%Q -> (0 < bw x)%Q -> (bw y == bw x)%Q -> (1 <= Qabs d)%Q ->
  (label y 0 == label x (nchan x - 1) + bw x * (1 + d))%Q ->
  concat eps rt 1 [ {| s_cls := c; s_led := l; s_band := Some x |}; {| s_cls := c; s_led := l; s_band := Some y |} ] = CErr 1.
Proof. exact reject_freq_gap. Qed.

(* frequency axis: cut the channels of a radio signal at arbitrary points c1 < c2 < ... = nchan, join along frequency:
   class, ledger (length, rate, start time) and every channel label come back *)
Theorem C10_split_concat_freq : forall eps rt s b c1 cs,
  (0 <= eps)%Q -> (0 <= rt)%Q -> s_band s = Some b -> flast_cut 0 (c1 :: cs) = nchan b ->
  exists s', concat eps rt 1 (fsplit s b (c1 :: cs)) = COk s' /\
    s_cls s' = s_cls s /\ s_led s' = s_led s /\ band_labels_eq (s_band s') (Some b).
Proof. exact split_concat_freq. Qed.

(* associativity: joining the result of a first concatenation with further pieces has the SAME outcome (the same error, or equal
   class / length / rate / start time / labels) as joining all pieces at once -- for arbitrary pieces, tolerances included *)
Theorem C10_assoc_left : forall eps rt A B sA, concat eps rt 0 A = COk sA ->
  cres_eq (concat eps rt 0 (A ++ B)) (concat eps rt 0 (sA :: B)).
Proof. exact concat_assoc_left. Qed.

(* every grouping: the pieces of a split signal joined in arbitrary runs g0, g1, ..., the run results then joined: every run is
   accepted, the join of the runs is accepted, and it is the whole signal (is_piece s 0 len: class, rate, length, start time of
   sample 0 when any piece kept one, labels).  concat_pieces, on which it rests, applies again to its own results: any depth. *)
Theorem C10_any_grouping : forall eps rt s cuts g0 gs,
  (0 <= eps)%Q -> (0 <= rt)%Q -> (0 < rate (s_led s))%Q -> (match s_band s with Some b => (0 <= bw b)%Q | None => True end) ->
  Forall (fun g => g <> []) (g0 :: gs) -> List.concat (g0 :: gs) = tsplit s cuts -> last_cut 0 cuts = len (s_led s) ->
  exists rs s1, Forall2 (fun g sg => concat eps rt 0 g = COk sg) (g0 :: gs) rs /\ concat eps rt 0 rs = COk s1 /\
    is_piece s 0 (len (s_led s)) s1 /\
    (t0 (s_led s1) = None <-> forall p, In p (tsplit s cuts) -> t0 (s_led p) = None).
Proof. exact split_regroup. Qed.
Theorem C10_pieces : forall s, (0 < rate (s_led s))%Q -> (match s_band s with Some b => (0 <= bw b)%Q | None => True end) ->
  forall eps rt p0 rest c c_end, (0 <= eps)%Q -> (0 <= rt)%Q -> chain s c (p0 :: rest) c_end ->
  exists s', concat eps rt 0 (p0 :: rest) = COk s' /\ is_piece s c (c_end - c) s' /\
    (t0 (s_led s') = None <-> forall p, In p (p0 :: rest) -> t0 (s_led p) = None).
Proof. exact concat_pieces. Qed.

(* what ACCEPTANCE implies, hence rejection of a perturbed piece at ANY position of a list of any length *)
Theorem C10_accepted_time : forall eps rt ps s', (0 <= eps)%Q -> concat eps rt 0 ps = COk s' -> ~ (rate (s_led s') == 0)%Q ->
  (forall p, In p ps -> s_cls p = s_cls s') /\
  (forall p, In p ps -> close_rel rt (rate (s_led s')) (rate (s_led p)) = true) /\
  len (s_led s') = total_len (map s_led ps) /\
  (forall pre p post t, ps = pre ++ p :: post -> t0 (s_led p) = Some t ->
     exists rf, t0 (s_led s') = Some rf /\
       (Qabs (rf + inject_Z (total_len (map s_led pre)) / rate (s_led s') - t) <= eps)%Q).
Proof. exact accepted_time. Qed.
Theorem C10_accepted_off_time : forall eps rt axis ps s', (0 <= eps)%Q -> axis <> 0 -> concat eps rt axis ps = COk s' ->
  (forall p, In p ps -> s_cls p = s_cls s') /\
  (forall p, In p ps -> close_rel rt (rate (s_led s')) (rate (s_led p)) = true) /\
  (forall p, In p ps -> len (s_led p) = len (s_led s')) /\
  (forall p t, In p ps -> t0 (s_led p) = Some t -> exists rf, t0 (s_led s') = Some rf /\ (Qabs (rf - t) <= eps)%Q).
Proof. exact accepted_off_time. Qed.
Theorem C10_accepted_bands : forall eps rt axis p0 rest s' b0, concat eps rt axis (p0 :: rest) = COk s' -> s_band p0 = Some b0 ->
  exists bs, bands_of (p0 :: rest) = Some bs /\
  (forall b, In b bs -> close_rel rt (bw b0) (bw b) = true) /\
  (axis = 1 -> forall pre x y post, bs = pre ++ x :: y :: post ->
     close_rel rt (label y 0 - label x (nchan x - 1))%Q (bw b0) = true) /\
  (axis <> 1 -> forall b, In b bs -> all_close_abs (rt * bw b0) (labels b0) (labels b) = true).
Proof. exact accepted_bands. Qed.
(* rejected r := exists e, r = CErr e *)
Theorem C10_reject_displaced_anywhere : forall eps rt pre p mid q post tp tq d r,
  (0 <= eps)%Q -> (0 < r)%Q -> (2 * eps < 1 / r)%Q -> (1 <= Qabs d)%Q ->
  (match pre ++ [p] with x :: _ => rate (s_led x) | [] => r end) = r ->
  t0 (s_led p) = Some tp -> t0 (s_led q) = Some tq ->
  (tq == tp + (inject_Z (len (s_led p) + total_len (map s_led mid)) + d) / r)%Q ->
  rejected (concat eps rt 0 (pre ++ p :: mid ++ q :: post)).
Proof. exact reject_displaced_anywhere. Qed.
Theorem C10_reject_rate_anywhere : forall eps rt axis p0 rest p, In p (p0 :: rest) ->
  close_rel rt (rate (s_led p0)) (rate (s_led p)) = false -> rejected (concat eps rt axis (p0 :: rest)).
Proof. exact reject_rate_anywhere. Qed.
Theorem C10_reject_bw_anywhere : forall eps rt axis p0 rest p b0, In p (p0 :: rest) -> s_band p0 = Some b0 ->
  match s_band p with Some b => close_rel rt (bw b0) (bw b) = false | None => True end ->
  rejected (concat eps rt axis (p0 :: rest)).
Proof. exact reject_bw_anywhere. Qed.
Theorem C10_reject_start_mismatch : forall eps rt axis ps p q tp tq, (0 <= eps)%Q -> axis <> 0 -> In p ps -> In q ps ->
  t0 (s_led p) = Some tp -> t0 (s_led q) = Some tq -> (2 * eps < Qabs (tp - tq))%Q ->
  rejected (concat eps rt axis ps).
Proof. exact reject_start_mismatch. Qed.
Theorem C10_reject_length_mismatch : forall eps rt axis p0 rest p, axis <> 0 -> In p (p0 :: rest) -> len (s_led p) <> len (s_led p0) ->
  rejected (concat eps rt axis (p0 :: rest)).
Proof. exact reject_length_mismatch. Qed.
Theorem C10_reject_freq_gap_anywhere : forall eps rt p0 rest b0 bs pre x y post d,
  s_band p0 = Some b0 -> bands_of (p0 :: rest) = Some bs -> bs = pre ++ x :: y :: post ->
  (0 <= rt)%Q -> (rt < 1)%Q -> (0 < bw b0)%Q -> (1 <= Qabs d)%Q ->
  (label y 0 == label x (nchan x - 1) + bw b0 * (1 + d))%Q ->
  rejected (concat eps rt 1 (p0 :: rest)).
Proof. exact reject_freq_gap_anywhere. Qed.
Theorem C10_reject_label_mismatch : forall eps rt axis p0 rest p b0 b, axis <> 1 -> In p (p0 :: rest) -> s_band p0 = Some b0 -> s_band p = Some b ->
  all_close_abs (rt * bw b0) (labels b0) (labels b) = false -> rejected (concat eps rt axis (p0 :: rest)).
Proof. exact reject_label_mismatch. Qed.

(* Not stated: right-nested grouping of ARBITRARY (not exactly contiguous) pieces -- with tolerances the outcome can legitimately
   differ by which pieces are compared; on exactly contiguous pieces C10_any_grouping covers every grouping. *)

(* tie to the source by translation (T12): at the tolerances the code uses (relative 1e-5), the model IS the function rebuilt from the
   pieces GENERATED from transforms.concatenate on this run - the bodies of both start-time loops, the frequency-contiguity difference,
   the off-axis label tolerance, the labels feeding the new centre frequency, the alignment name (the remaining statements are pinned) *)
Theorem C10_generated : forall eps axis ps, concat eps (1 # 100000) axis ps = concat_gen eps axis ps.
Proof. exact concat_generated. Qed.
Theorem C10_generated_align : align_name 1 = gen_concat_align.
Proof. exact concat_align_generated. Qed.

Print Assumptions C10_split_concat_time.
Print Assumptions C10_reject_class.
Print Assumptions C10_reject_time_gap.
Print Assumptions C10_reject_freq_gap.
Print Assumptions C10_split_concat_freq.
Print Assumptions C10_assoc_left.
Print Assumptions C10_any_grouping.
Print Assumptions C10_pieces.
Print Assumptions C10_accepted_time.
Print Assumptions C10_accepted_off_time.
Print Assumptions C10_accepted_bands.
Print Assumptions C10_reject_displaced_anywhere.
Print Assumptions C10_reject_rate_anywhere.
Print Assumptions C10_reject_bw_anywhere.
Print Assumptions C10_reject_start_mismatch.
Print Assumptions C10_reject_length_mismatch.
Print Assumptions C10_reject_freq_gap_anywhere.
Print Assumptions C10_reject_label_mismatch.
Print Assumptions C10_generated.
