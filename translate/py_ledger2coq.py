"""Translator T4: the time bookkeeping of Signal._time_slice (core.py) -> Gallina (Gen/GenLedger.v).

The method is tiny and every crop / slice of the library funnels through it, so the model's arithmetic (Model/Ledger.time_slice) is tied
to the source by translation: the statements are read from the AST, their expressions are rendered as exact rational terms over the
ledger, and Proofs/LedgerGen.v proves that Model/Ledger.time_slice is built from exactly these generated terms.  A change of the source
arithmetic (another attribute of the slice, another operator, a dropped branch) changes the generated definitions and breaks that lemma.

Fail-closed: any statement or expression outside the expected shape raises Unsupported."""
import ast, pathlib, sys


class Unsupported(Exception):
    pass


def find_method(tree, cls, name):
    for n in tree.body:
        if isinstance(n, ast.ClassDef) and n.name == cls:
            for m in n.body:
                if isinstance(m, ast.FunctionDef) and m.name == name:
                    return m
    raise Unsupported(f'{cls}.{name} not found')


class Ex:
    """expression -> Coq term of type Q (numbers) ; names: self.sample_rate, self.start_time (inside the not-None branch), s.start/stop/step"""

    def __init__(self, sl, idx, start_var=None):
        self.sl, self.idx, self.start_var = sl, idx, start_var

    def q(self, n):
        if isinstance(n, ast.BinOp):
            op = {ast.Add: '+', ast.Sub: '-', ast.Mult: '*', ast.Div: '/'}.get(type(n.op))
            if op is None:
                raise Unsupported('operator ' + ast.dump(n.op))
            return f'({self.q(n.left)} {op} {self.q(n.right)})'
        if isinstance(n, ast.Attribute) and isinstance(n.value, ast.Name):
            if n.value.id == 'self' and n.attr == 'sample_rate':
                return 'rate l'
            if n.value.id == 'self' and n.attr == 'start_time':
                if self.start_var is None:
                    raise Unsupported('self.start_time used outside the "is not None" branch')
                return self.start_var
            if n.value.id == self.sl and n.attr in ('start', 'stop', 'step'):
                return 'inject_Z ' + {'start': 'lo', 'stop': 'hi', 'step': 'st'}[n.attr]
        if isinstance(n, ast.Constant) and isinstance(n.value, int) and not isinstance(n.value, bool):
            return f'inject_Z ({n.value})'
        raise Unsupported('expression ' + ast.dump(n))

    def zcmp(self, n):
        """s.<attr> > <int>  -> Coq bool on Z"""
        if isinstance(n, ast.Compare) and len(n.ops) == 1 and isinstance(n.ops[0], ast.Gt) and isinstance(n.left, ast.Attribute) \
           and isinstance(n.left.value, ast.Name) and n.left.value.id == self.sl and n.left.attr in ('start', 'stop', 'step') \
           and isinstance(n.comparators[0], ast.Constant) and isinstance(n.comparators[0].value, int):
            v = {'start': 'lo', 'stop': 'hi', 'step': 'st'}[n.left.attr]
            return f'({n.comparators[0].value} <? {v})'
        raise Unsupported('condition ' + ast.dump(n))


def generate(repo='/repo'):
    src = pathlib.Path(repo, 'pulsarbat', 'core.py').read_text()
    fn = find_method(ast.parse(src), 'Signal', '_time_slice')
    if [a.arg for a in fn.args.args] != ['self', 'index'] or fn.args.vararg or fn.args.kwarg or fn.args.kwonlyargs:
        raise Unsupported('signature of _time_slice')
    idx = 'index'
    body = [s for s in fn.body if not (isinstance(s, ast.Expr) and isinstance(s.value, ast.Constant) and isinstance(s.value.value, str))]
    # 1. s = slice(*index.indices(self.shape[0]))
    s0 = body[0]
    want = "Assign(targets=[Name(id='S', ctx=Store())], value=Call(func=Name(id='slice', ctx=Load()), args=[Starred(value=Call(func=Attribute(value=Name(id='index', ctx=Load()), attr='indices', ctx=Load()), args=[Subscript(value=Attribute(value=Name(id='self', ctx=Load()), attr='shape', ctx=Load()), slice=Constant(value=0), ctx=Load())], keywords=[]), ctx=Load())], keywords=[]))"
    if not (isinstance(s0, ast.Assign) and len(s0.targets) == 1 and isinstance(s0.targets[0], ast.Name)):
        raise Unsupported('first statement: ' + ast.dump(s0))
    sl = s0.targets[0].id
    if ast.dump(s0) != want.replace("'S'", repr(sl)):
        raise Unsupported('first statement is not  s = slice(*index.indices(self.shape[0])) : ' + ast.dump(s0))
    ex = Ex(sl, idx)
    # 2. assert s.step > 0
    s1 = body[1]
    if not isinstance(s1, ast.Assert):
        raise Unsupported('second statement: ' + ast.dump(s1))
    guard = ex.zcmp(s1.test)
    # 3. kw = dict()
    s2 = body[2]
    if not (isinstance(s2, ast.Assign) and len(s2.targets) == 1 and isinstance(s2.targets[0], ast.Name) and
            isinstance(s2.value, ast.Call) and isinstance(s2.value.func, ast.Name) and s2.value.func.id == 'dict' and not s2.value.args and not s2.value.keywords):
        raise Unsupported('third statement: ' + ast.dump(s2))
    kw = s2.targets[0].id
    rate_term, start_term = 'rate l', 't0 l'
    seen = set()
    for st in body[3:-1]:
        if not (isinstance(st, ast.If) and not st.orelse and len(st.body) == 1 and isinstance(st.body[0], ast.Assign)):
            raise Unsupported('statement: ' + ast.dump(st))
        a = st.body[0]
        t = a.targets[0]
        if not (len(a.targets) == 1 and isinstance(t, ast.Subscript) and isinstance(t.value, ast.Name) and t.value.id == kw and
                isinstance(t.slice, ast.Constant) and t.slice.value in ('sample_rate', 'start_time')):
            raise Unsupported('assignment target: ' + ast.dump(t))
        key = t.slice.value
        if key in seen:
            raise Unsupported('key assigned twice: ' + key)
        seen.add(key)
        if key == 'sample_rate':
            cond = ex.zcmp(st.test)
            rate_term = f'if {cond} then {ex.q(a.value)}%Q else rate l'
        else:
            c = st.test
            if not (isinstance(c, ast.Compare) and len(c.ops) == 1 and isinstance(c.ops[0], ast.IsNot) and isinstance(c.left, ast.Attribute) and
                    isinstance(c.left.value, ast.Name) and c.left.value.id == 'self' and c.left.attr == 'start_time' and
                    isinstance(c.comparators[0], ast.Constant) and c.comparators[0].value is None):
                raise Unsupported('start_time condition: ' + ast.dump(c))
            start_term = f'match t0 l with None => None | Some t => Some {Ex(sl, idx, "t").q(a.value)}%Q end'
    last = body[-1]
    if not (isinstance(last, ast.Return) and isinstance(last.value, ast.Name) and last.value.id == kw):
        raise Unsupported('last statement: ' + ast.dump(last))
    lines = ['(* GENERATED by translate/py_ledger2coq.py from Signal._time_slice (core.py) -- do not edit *)',
             'From Coq Require Import ZArith QArith Bool.', 'From PB Require Import Model.Ledger.', 'Open Scope Z_scope.',
             '(* lo hi st : the triple slice.indices(len) returns *)',
             f'Definition gen_ts_guard (lo hi st : Z) : bool := {guard}.',
             f'Definition gen_ts_rate (l : ledger) (lo hi st : Z) : Q := {rate_term}.',
             f'Definition gen_ts_start (l : ledger) (lo hi st : Z) : option Q := {start_term}.',
             f'(* keys set: {sorted(seen)} *)']
    return '\n'.join(lines) + '\n'


# ---------------------------------------------------------------------------------------------------------------------------------
# Property bodies  "return <arithmetic over self attributes>"  ->  Q terms (time bookkeeping of Signal, band bookkeeping of RadioSignal)
from fractions import Fraction


def find_prop(tree, cls, name):
    """the getter of a property (decorated @property) or a plain method"""
    for n in tree.body:
        if isinstance(n, ast.ClassDef) and n.name == cls:
            for m in n.body:
                if isinstance(m, ast.FunctionDef) and m.name == name and \
                   all(not (isinstance(d, ast.Attribute) and d.attr in ('setter', 'deleter')) for d in m.decorator_list):
                    if [ast.unparse(d) for d in m.decorator_list] not in (['property'], []):
                        raise Unsupported(f'{cls}.{name} is not a plain property (decorators: {[ast.unparse(d) for d in m.decorator_list]})')
                    return m
    raise Unsupported(f'{cls}.{name} not found')


def strip_doc(fn):
    return [s for s in fn.body if not (isinstance(s, ast.Expr) and isinstance(s.value, ast.Constant) and isinstance(s.value.value, str))]


class QEx:
    """arithmetic expression -> Coq Q term.  attrs: self.<name> -> term ; names: local -> term ; `.to(u.<unit>)` is the identity of the
    exact model (a unit conversion does not change the quantity) ; len(self) -> lenterm."""

    def __init__(self, attrs, names=None, lenterm=None):
        self.attrs, self.names, self.lenterm = attrs, dict(names or {}), lenterm

    def q(self, n):
        if isinstance(n, ast.BinOp):
            op = {ast.Add: '+', ast.Sub: '-', ast.Mult: '*', ast.Div: '/'}.get(type(n.op))
            if op is None:
                raise Unsupported('operator ' + ast.dump(n.op))
            return f'({self.q(n.left)} {op} {self.q(n.right)})'
        if isinstance(n, ast.Call) and isinstance(n.func, ast.Attribute) and n.func.attr == 'to' and len(n.args) == 1 and not n.keywords \
           and isinstance(n.args[0], ast.Attribute) and isinstance(n.args[0].value, ast.Name) and n.args[0].value.id == 'u':
            return self.q(n.func.value)
        if isinstance(n, ast.Call) and isinstance(n.func, ast.Name) and n.func.id == 'len' and len(n.args) == 1 and not n.keywords \
           and isinstance(n.args[0], ast.Name) and n.args[0].id == 'self' and self.lenterm:
            return self.lenterm
        if isinstance(n, ast.Attribute) and isinstance(n.value, ast.Name) and n.value.id == 'self' and n.attr in self.attrs:
            return self.attrs[n.attr]
        if isinstance(n, ast.Name) and n.id in self.names:
            return self.names[n.id]
        if isinstance(n, ast.Constant) and isinstance(n.value, int) and not isinstance(n.value, bool):
            return f'inject_Z ({n.value})'
        if isinstance(n, ast.Constant) and isinstance(n.value, float):
            f = Fraction(n.value)
            return f'(({f.numerator}) # {f.denominator})'
        raise Unsupported('expression ' + ast.dump(n))


def single_return(fn):
    body = strip_doc(fn)
    if len(body) != 1 or not isinstance(body[0], ast.Return):
        raise Unsupported(f'{fn.name}: expected a single return statement')
    return body[0].value


LEDGER_ATTRS = {'sample_rate': 'rate l'}


def generate_ledger_props(tree):
    out = []
    ex = QEx(LEDGER_ATTRS, lenterm='inject_Z (len l)')
    out.append(f'Definition gen_dt (l : ledger) : Q := {ex.q(single_return(find_prop(tree, "Signal", "dt")))}%Q.')
    out.append(f'Definition gen_time_length (l : ledger) : Q := {ex.q(single_return(find_prop(tree, "Signal", "time_length")))}%Q.')
    # stop_time:  if self.start_time is None: return None ; return self.start_time + self.time_length
    b = strip_doc(find_prop(tree, 'Signal', 'stop_time'))
    want0 = "If(test=Compare(left=Attribute(value=Name(id='self', ctx=Load()), attr='start_time', ctx=Load()), ops=[Is()], comparators=[Constant(value=None)]), body=[Return(value=Constant(value=None))], orelse=[])"
    if len(b) != 2 or ast.dump(b[0]) != want0 or not isinstance(b[1], ast.Return):
        raise Unsupported('stop_time body')
    ex2 = QEx({'start_time': 't', 'time_length': 'gen_time_length l'})
    out.append(f'Definition gen_stop_time (l : ledger) : option Q := match t0 l with None => None | Some t => Some {ex2.q(b[1].value)}%Q end.')
    # contains: no start time -> nothing inside; else the half-open test, with the two isclose terms that only decide WITHIN Time's
    # resolution of an edge (close to the stop: outside; close to the start: not excluded by that).  Pinned as a syntax tree.
    fn = find_prop(tree, 'Signal', 'contains')
    want = '''def contains(self, t, /):
    if self.start_time is None:
        return np.zeros(t.shape, bool) if t.shape else False
    t0, t1 = self.start_time, self.stop_time
    edge = ~np.bool_(Time.isclose(t, t1)) | np.bool_(Time.isclose(t, t0))
    return edge & (t0 <= t) & (t < t1)
'''
    f2 = ast.parse(ast.unparse(fn)).body[0]
    f2.body = strip_doc(f2)
    ok = ast.dump(f2) == ast.dump(ast.parse(want).body[0])
    out.append(f'Definition gen_contains_is_half_open : bool := {"true" if ok else "false"}.')
    return out


def generate_band(repo='/repo'):
    """RadioSignal: bandwidth, max_freq, min_freq, channel_freqs (per element) and _freq_slice -> Gen/GenBand.v"""
    tree = ast.parse(pathlib.Path(repo, 'pulsarbat', 'core.py').read_text())
    attrs = {'center_freq': 'cf b', 'chan_bw': 'bw b', 'nchan': 'inject_Z (nchan b)'}
    out = ['(* GENERATED by translate/py_ledger2coq.py from RadioSignal (core.py) -- do not edit *)',
           'From Coq Require Import ZArith QArith Bool String.', 'From PB Require Import Model.Band.', 'Open Scope Z_scope.']
    ex = QEx(attrs)
    out.append(f'Definition gen_bandwidth (b : band) : Q := {ex.q(single_return(find_prop(tree, "RadioSignal", "bandwidth")))}%Q.')
    ex = QEx(dict(attrs, bandwidth='gen_bandwidth b'))
    out.append(f'Definition gen_max_freq (b : band) : Q := {ex.q(single_return(find_prop(tree, "RadioSignal", "max_freq")))}%Q.')
    out.append(f'Definition gen_min_freq (b : band) : Q := {ex.q(single_return(find_prop(tree, "RadioSignal", "min_freq")))}%Q.')
    # channel_freqs:  _align = {...}[self.freq_align] ; chan_ids = np.arange(self.nchan) + _align - self.nchan / 2 ; return cf + bw * chan_ids
    body = strip_doc(find_prop(tree, 'RadioSignal', 'channel_freqs'))
    if len(body) != 3:
        raise Unsupported('channel_freqs: expected three statements')
    a0, a1, r = body
    if not (isinstance(a0, ast.Assign) and len(a0.targets) == 1 and isinstance(a0.targets[0], ast.Name) and isinstance(a0.value, ast.Subscript)
            and isinstance(a0.value.value, ast.Dict) and ast.dump(a0.value.slice) == "Attribute(value=Name(id='self', ctx=Load()), attr='freq_align', ctx=Load())"):
        raise Unsupported('channel_freqs: first statement ' + ast.dump(a0))
    al = a0.targets[0].id          # the table itself is generated by T2 (align_table) ; align_q looks the name up in it
    if not (isinstance(a1, ast.Assign) and len(a1.targets) == 1 and isinstance(a1.targets[0], ast.Name)):
        raise Unsupported('channel_freqs: second statement')
    ids = a1.targets[0].id

    class Elem(QEx):               # element i of the array expression: np.arange(self.nchan) -> i
        def q(self, n):
            if ast.dump(n) == "Call(func=Attribute(value=Name(id='np', ctx=Load()), attr='arange', ctx=Load()), args=[Attribute(value=Name(id='self', ctx=Load()), attr='nchan', ctx=Load())], keywords=[])":
                return 'inject_Z i'
            return super().q(n)
    e1 = Elem(attrs, {al: 'align_q (align b)'})
    ids_term = e1.q(a1.value)
    if not isinstance(r, ast.Return):
        raise Unsupported('channel_freqs: third statement')
    out.append(f'Definition gen_label (b : band) (i : Z) : Q := {Elem(attrs, {ids: ids_term}).q(r.value)}%Q.')
    # _freq_slice
    fn = find_method(tree, 'RadioSignal', '_freq_slice')
    if [a.arg for a in fn.args.args] != ['self', 'index']:
        raise Unsupported('signature of _freq_slice')
    body = strip_doc(fn)
    if len(body) != 5:
        raise Unsupported('_freq_slice: expected five statements')
    s0, g1, g2, fa, ret = body
    if not (isinstance(s0, ast.Assign) and isinstance(s0.targets[0], ast.Name)):
        raise Unsupported('_freq_slice: first statement')
    sl = s0.targets[0].id
    want = "Assign(targets=[Name(id=%r, ctx=Store())], value=Call(func=Name(id='slice', ctx=Load()), args=[Starred(value=Call(func=Attribute(value=Name(id='index', ctx=Load()), attr='indices', ctx=Load()), args=[Subscript(value=Attribute(value=Name(id='self', ctx=Load()), attr='shape', ctx=Load()), slice=Constant(value=1), ctx=Load())], keywords=[]), ctx=Load())], keywords=[]))" % sl
    if ast.dump(s0) != want:
        raise Unsupported('_freq_slice: first statement is not  s = slice(*index.indices(self.shape[1]))')
    V = {'start': 'lo', 'stop': 'hi', 'step': 'st'}

    def zterm(n):
        if isinstance(n, ast.Attribute) and isinstance(n.value, ast.Name) and n.value.id == sl and n.attr in V:
            return V[n.attr]
        if isinstance(n, ast.Constant) and isinstance(n.value, int) and not isinstance(n.value, bool):
            return f'({n.value})'
        raise Unsupported('integer term ' + ast.dump(n))

    def zcond(n):
        if isinstance(n, ast.Compare) and len(n.ops) == 1:
            a, b2 = zterm(n.left), zterm(n.comparators[0])
            t = type(n.ops[0])
            if t is ast.Eq:
                return f'({a} =? {b2})'
            if t is ast.Gt:
                return f'({b2} <? {a})'
            if t is ast.Lt:
                return f'({a} <? {b2})'
            if t is ast.GtE:
                return f'({b2} <=? {a})'
            if t is ast.LtE:
                return f'({a} <=? {b2})'
        raise Unsupported('condition ' + ast.dump(n))
    if not (isinstance(g1, ast.Assert) and isinstance(g2, ast.Assert)):
        raise Unsupported('_freq_slice: expected two assertions')
    out.append(f'Definition gen_fs_guard1 (lo hi st : Z) : bool := {zcond(g1.test)}.')
    out.append(f'Definition gen_fs_guard2 (lo hi st : Z) : bool := {zcond(g2.test)}.')
    wantf = "Subscript(value=Attribute(value=Name(id='self', ctx=Load()), attr='channel_freqs', ctx=Load()), slice=Name(id=%r, ctx=Load()), ctx=Load())" % sl
    if not (isinstance(fa, ast.Assign) and isinstance(fa.targets[0], ast.Name) and ast.dump(fa.value) == wantf):
        raise Unsupported('_freq_slice: fourth statement is not  f = self.channel_freqs[s]')
    f = fa.targets[0].id

    class FEx(QEx):                # f = channel_freqs[lo:hi:1] (non-empty by guard 2): f[0] is label lo, f[-1] is label hi-1
        def q(self, n):
            if isinstance(n, ast.Subscript) and isinstance(n.value, ast.Name) and n.value.id == f:
                i = n.slice
                if isinstance(i, ast.Constant) and i.value == 0:
                    return 'gen_label b lo'
                if isinstance(i, ast.UnaryOp) and isinstance(i.op, ast.USub) and isinstance(i.operand, ast.Constant) and i.operand.value == 1:
                    return 'gen_label b (hi - 1)'
                raise Unsupported('index into the sliced labels ' + ast.dump(i))
            return super().q(n)
    if not (isinstance(ret, ast.Return) and isinstance(ret.value, ast.Dict) and
            [k.value if isinstance(k, ast.Constant) else None for k in ret.value.keys] == ['center_freq', 'freq_align']):
        raise Unsupported('_freq_slice: returned keys')
    cfv, alv = ret.value.values
    if not (isinstance(alv, ast.Constant) and isinstance(alv.value, str)):
        raise Unsupported('_freq_slice: freq_align value')
    out.append(f'Definition gen_fs_center (b : band) (lo hi st : Z) : Q := {FEx(attrs).q(cfv)}%Q.')
    out.append(f'Definition gen_fs_align : string := "{alv.value}"%string.')
    return '\n'.join(out) + '\n'


_generate_ts = generate


def generate(repo='/repo'):
    text = _generate_ts(repo)
    tree = ast.parse(pathlib.Path(repo, 'pulsarbat', 'core.py').read_text())
    return text + '\n'.join(generate_ledger_props(tree)) + '\n'


# ---------------------------------------------------------------------------------------------------------------------------------
# Signal.__getitem__ / RadioSignal.__getitem__ -> Gen/GenGetitem.v : the index dispatch (which items must be slices, which item goes to
# which slicing routine, in which order, under which condition).  FullStokesSignal.__getitem__ (component names) is pinned.
def _is(node, text):
    try:
        if isinstance(node, ast.stmt):
            return ast.dump(node) == ast.dump(ast.parse(text).body[0])
        return ast.dump(node) == ast.dump(ast.parse(text, mode='eval').body)
    except SyntaxError:
        return False


def _small_nat(n, what):
    if isinstance(n, ast.Constant) and isinstance(n.value, int) and not isinstance(n.value, bool) and 0 <= n.value <= 8:
        return n.value
    raise Unsupported(f'{what}: expected a small non-negative integer literal, found ' + ast.unparse(n))


def _getitem(tree, cls, routines):
    """-> (guard width, [(routine, item number, needed-length or None)]) read from cls.__getitem__"""
    fn = find_method(tree, cls, '__getitem__')
    if [a.arg for a in fn.args.args] != ['self', 'index'] or fn.args.vararg or fn.args.kwarg or fn.args.kwonlyargs or fn.args.defaults or fn.decorator_list:
        raise Unsupported(f'{cls}.__getitem__: signature')
    body = strip_doc(fn)
    if len(body) < 5:
        raise Unsupported(f'{cls}.__getitem__: too few statements')
    if not _is(body[0], 'if not isinstance(index, tuple):\n    index = (index,)'):
        raise Unsupported(f'{cls}.__getitem__: index normalisation  ' + ast.unparse(body[0])[:120])
    g = body[1]
    ok = (isinstance(g, ast.If) and not g.orelse and isinstance(g.test, ast.UnaryOp) and isinstance(g.test.op, ast.Not)
          and isinstance(g.test.operand, ast.Call) and _is(g.test.operand.func, 'all') and len(g.test.operand.args) == 1
          and not g.test.operand.keywords and isinstance(g.test.operand.args[0], ast.GeneratorExp))
    if not ok:
        raise Unsupported(f'{cls}.__getitem__: guard  ' + ast.unparse(g)[:160])
    ge = g.test.operand.args[0]
    if not (_is(ge.elt, 'isinstance(a, slice)') and len(ge.generators) == 1 and isinstance(ge.generators[0].target, ast.Name) and ge.generators[0].target.id == 'a' and not ge.generators[0].ifs
            and not ge.generators[0].is_async):
        raise Unsupported(f'{cls}.__getitem__: guard element  ' + ast.unparse(ge)[:160])
    it = ge.generators[0].iter
    if not (isinstance(it, ast.Subscript) and _is(it.value, 'index') and isinstance(it.slice, ast.Slice) and it.slice.lower is None
            and it.slice.step is None and it.slice.upper is not None):
        raise Unsupported(f'{cls}.__getitem__: guarded items  ' + ast.unparse(it))
    width = _small_nat(it.slice.upper, 'guard width')
    # the guard body must raise IndexError (message free)
    gb = g.body
    if not (len(gb) in (1, 2) and isinstance(gb[-1], ast.Raise) and isinstance(gb[-1].exc, ast.Call) and _is(gb[-1].exc.func, 'IndexError')
            and all(isinstance(x, ast.Assign) and isinstance(x.value, ast.Constant) and isinstance(x.value.value, str) for x in gb[:-1])):
        raise Unsupported(f'{cls}.__getitem__: the guard must raise IndexError')
    if not (_is(body[2], 'kw = dict()') or _is(body[2], 'kw = {}')):
        raise Unsupported(f'{cls}.__getitem__: expected kw = dict(), found  ' + ast.unparse(body[2]))
    ups = []

    def update(st, need):
        if not (isinstance(st, ast.Expr) and isinstance(st.value, ast.Call) and _is(st.value.func, 'kw.update') and len(st.value.args) == 1
                and not st.value.keywords):
            raise Unsupported(f'{cls}.__getitem__: expected kw.update(...), found  ' + ast.unparse(st)[:120])
        c = st.value.args[0]
        if not (isinstance(c, ast.Call) and isinstance(c.func, ast.Attribute) and _is(c.func.value, 'self') and c.func.attr in routines
                and len(c.args) == 1 and not c.keywords and isinstance(c.args[0], ast.Subscript) and _is(c.args[0].value, 'index')):
            raise Unsupported(f'{cls}.__getitem__: slicing routine call  ' + ast.unparse(c)[:120])
        ups.append((c.func.attr, _small_nat(c.args[0].slice, 'item number'), need))
    for st in body[3:-1]:
        if isinstance(st, ast.If):
            t = st.test
            if not (not st.orelse and isinstance(t, ast.Compare) and len(t.ops) == 1 and isinstance(t.ops[0], ast.Gt) and _is(t.left, 'len(index)')):
                raise Unsupported(f'{cls}.__getitem__: condition  ' + ast.unparse(t))
            need = _small_nat(t.comparators[0], 'needed length')
            for x in st.body:
                update(x, need)
        else:
            update(st, None)
    if not _is(body[-1], 'return type(self).like(self, self.data[index], **kw)'):
        raise Unsupported(f'{cls}.__getitem__: return  ' + ast.unparse(body[-1])[:160])
    return width, ups


def generate_getitem(repo='/repo'):
    tree = ast.parse(pathlib.Path(repo, 'pulsarbat', 'core.py').read_text())
    out = ['(* GENERATED by translate/py_ledger2coq.py from Signal.__getitem__ / RadioSignal.__getitem__ (core.py) -- do not edit *)',
           'From Coq Require Import ZArith QArith List Bool.', 'From PB Require Import Lib.PySlice Model.Ledger Model.Band Model.Getitem.',
           'Import ListNotations.', 'Open Scope Z_scope.',
           '(* state while the keyword updates run: the ledger result so far and the band result so far *)',
           'Definition gen_time_update (l : ledger) (index : list item) (k : nat) (cont : ledger -> Z -> Z -> gres) : gres :=\n'
           '  match nth_error index k with\n  | None => GIndex\n  | Some IOther => GOther\n  | Some (ISlice a b c) =>\n'
           '      match time_slice l a b c with Err e => GTime e | Ok l1 off st => cont l1 off st end\n  end.',
           'Definition gen_freq_update (bd : band) (index : list item) (k : nat) (cont : option (band * Z) -> gres) : gres :=\n'
           '  match nth_error index k with\n  | None => GIndex\n  | Some IOther => GOther\n  | Some (ISlice a b c) =>\n'
           '      match freq_slice bd a b c with BErr e => GFreq e | BOk b1 lo => cont (Some (b1, lo)) end\n  end.']
    for cls, name, routines in (('Signal', 'signal', ('_time_slice',)), ('RadioSignal', 'radio', ('_time_slice', '_freq_slice'))):
        width, ups = _getitem(tree, cls, routines)
        if [u[0] for u in ups].count('_time_slice') != 1 or ups[0][0] != '_time_slice' or ups[0][2] is not None:
            raise Unsupported(f'{cls}.__getitem__: exactly one unconditional _time_slice update must come first')
        if len(ups) > 2 or (len(ups) == 2 and ups[1][0] != '_freq_slice'):
            raise Unsupported(f'{cls}.__getitem__: updates ' + repr(ups))
        args = '(l : ledger) (index : list item)' if name == 'signal' else '(l : ledger) (bd : band) (index : list item)'
        inner = 'GOk l1 off st None'
        if len(ups) == 2:
            _, k, need = ups[1]
            fr = f'gen_freq_update bd index {k} (fun r => GOk l1 off st r)'
            inner = fr if need is None else f'if Nat.ltb {need} (length index) then {fr} else GOk l1 off st None'
        out.append(f'Definition gen_{name}_guard_width : nat := {width}%nat.')
        out.append(f'Definition gen_{name}_getitem {args} : gres :=\n  if negb (forallb is_slice (firstn gen_{name}_guard_width index)) then GIndex else\n'
                   f'  gen_time_update l index {ups[0][1]} (fun l1 off st => {inner}).')
    # FullStokesSignal.__getitem__: component names -> IntensitySignal, everything else to the parent; pinned
    fs = strip_doc(find_method(tree, 'FullStokesSignal', '__getitem__'))
    want = ('if isinstance(key, str):\n    index = self._stokes_ids.get(key)\n    if index is None:\n        err = "x"\n        raise KeyError(err)\n'
            '    else:\n        axis = self.get_axis("pol")\n        x = np.take(self.data, index, axis=axis)\n        return IntensitySignal.like(self, x)\n'
            'else:\n    return super().__getitem__(key)')

    class NoMsg(ast.NodeTransformer):
        def visit_Assign(self, n):
            if isinstance(n.targets[0], ast.Name) and n.targets[0].id == 'err' and isinstance(n.value, ast.Constant) and isinstance(n.value.value, str):
                n.value = ast.Constant('x')
            return n
    got = ast.dump(NoMsg().visit(ast.parse(ast.unparse(fs[0])).body[0])) if len(fs) == 1 else ''
    pinned = got == ast.dump(ast.parse(want).body[0])
    out.append('(* FullStokesSignal.__getitem__: a string key selects along the pol axis into an IntensitySignal built with like(self, ...) (no time or'
               '\n   frequency keyword is overridden); any other key goes to RadioSignal.__getitem__ *)')
    out.append(f'Definition gen_stokes_getitem_is_component_or_parent : bool := {"true" if pinned else "false"}.')
    return '\n'.join(out) + '\n'


if __name__ == '__main__':
    sys.stdout.write(generate(sys.argv[1] if len(sys.argv) > 1 else '/repo'))
    sys.stdout.write(generate_band(sys.argv[1] if len(sys.argv) > 1 else '/repo'))
    sys.stdout.write(generate_getitem(sys.argv[1] if len(sys.argv) > 1 else '/repo'))
