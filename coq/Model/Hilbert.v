(* Model/Hilbert.v -- utils.real_to_complex (C19): Hilbert weights exactly as the code assigns them,
   output length, dtype rule, and the transform itself written with the SAME dft/idft terms the theorems of
   Lib/Dft.v are about (carrier-generic); [rtc_f] is the binary64 instance run against the code. *)
From Coq Require Import ZArith List Bool PrimFloat.
From PB Require Import Lib.Dft Lib.F64.
Import ListNotations.
Open Scope Z_scope.

(* h = zeros(N); h[0] = 1; h[1 : N//2] = 2; if N > 1: h[N//2] = 2 if N % 2 else 1   (last write wins) *)
Definition h (N k : Z) : Z :=
  if (1 <? N) && (k =? N / 2) then (if N mod 2 =? 0 then 1 else 2)
  else if (1 <=? k) && (k <? N / 2) then 2
  else if k =? 0 then 1
  else 0.

Definition out_len (N : Z) : Z := if N =? 0 then 0 else (N - 1) / 2 + 1.    (* len(z[::2]) *)
(* dtype rule: 0 = complex64 (float32 input), 1 = complex128 (every other real dtype); None = complex input refused *)
Definition out_dtype (in_is_float32 in_is_complex : bool) : option Z :=
  if in_is_complex then None else Some (if in_is_float32 then 0 else 1).

Section Generic.
  Variable T : Type.
  Variables (t0 : T) (tadd tmul : T -> T -> T).
  Variable n : nat.
  Variable W : Z -> T.          (* W z = exp(2 pi i z / n) *)
  Variable ninv : T.
  Variable inj : Z -> T.        (* the weights 0, 1, 2 as carrier elements *)
  Variable mix : nat -> T.      (* exp(-i pi/2 m) *)

  Definition analytic (x : nat -> T) (m : nat) : T :=
    idft T t0 tadd tmul n W ninv (fun k => tmul (dft T t0 tadd tmul n W x k) (inj (h (Z.of_nat n) (Z.of_nat k)))) m.
  (* z *= exp(-1j*pi/2*arange(N)); z[::2] *)
  Definition rtc (x : nat -> T) (m : nat) : T := tmul (analytic x (2 * m)) (mix (2 * m)).
End Generic.

(* binary64 instance *)
Definition rtc_f (xs : list float) : list Fc :=
  let n := length xs in
  let N := Z.of_nat n in
  let x := fun m => (nth m xs f0, f0) in
  let W := fun z => cis_turn z N in
  let ninv := ((1 / of_Z N)%float, f0) in
  let X := map (dft Fc c0 cadd cmul n W x) (seq 0 n) in
  let Xh := map (fun k => cmul (nth k X c0) (of_Z (h N (Z.of_nat k)), f0)) (seq 0 n) in
  map (fun m => cmul (idft Fc c0 cadd cmul n W ninv (fun k => nth k Xh c0) (2 * m)) (cis_turn (- Z.of_nat (2 * m)) 4))
      (seq 0 (Z.to_nat (out_len N))).
