(* Props/C11.v -- readers are position-faithful, stateless and agree with the underlying file.  Statements only (Z / Q / lists,
   axiom-free); proofs in Proofs/ReaderProofs.v about Model/Reader.v. *)
From Coq Require Import ZArith QArith List Bool.
From PB Require Import Model.Disp Model.Reader Proofs.ReaderProofs Gen.GenReader Proofs.ReaderGen.
Import ListNotations.
Open Scope Z_scope.

(* read(offset, n): exactly the requests with offset < 0, n < 0 or offset + n > len raise; otherwise n samples, start_time =
   time_at(offset), taken from inside the file (real baseband: the 2n real samples from 2*offset) *)
Theorem C11_read : forall r offset n, 0 <= r_len r ->
  match read r offset n with
  | RErr _ => offset < 0 \/ n < 0 \/ r_len r < offset + n
  | ROk m start lo hi => 0 <= offset /\ 0 <= n /\ offset + n <= r_len r /\ m = n /\ start = time_at r offset /\
                         0 <= lo /\ hi <= file_len r /\ hi - lo = (if r_real r then 2 * n else n) /\
                         lo = (if r_real r then 2 * offset else offset)
  end.
Proof. exact read_spec. Qed.
(* offset_at(time_at(k)) = k for every 0 <= k <= len: through absolute times and through relative times *)
Theorem C11_roundtrip_relative : forall r k, (0 < r_rate r)%Q -> 0 <= k <= r_len r -> offset_rel r (time_rel r k) = Some k.
Proof. exact roundtrip_rel. Qed.
Theorem C11_roundtrip_absolute : forall r k t0, (0 < r_rate r)%Q -> 0 <= k <= r_len r -> r_t0 r = Some t0 ->
  exists t, time_at r k = Some t /\ offset_at r t = Some k.
Proof. exact roundtrip_abs. Qed.
Theorem C11_offset_bounds : forall r dt o, offset_rel r dt = Some o -> 0 <= o <= r_len r.
Proof. exact offset_bounds. Qed.

(* offset_at is the NEAREST sample and refuses exactly when that sample lies outside [0, len]; every time more than half a sample
   before the start or after the end is refused *)
Theorem C11_offset_nearest : forall r dt o, offset_rel r dt = Some o ->
  (inject_Z o - (1 # 2) <= dt * r_rate r <= inject_Z o + (1 # 2))%Q /\ 0 <= o <= r_len r.
Proof. exact offset_nearest. Qed.
Theorem C11_refused_before_start : forall r dt, (dt * r_rate r < - (1 # 2))%Q -> offset_rel r dt = None.
Proof. exact offset_refused_before. Qed.
Theorem C11_refused_after_end : forall r dt, (inject_Z (r_len r) + (1 # 2) < dt * r_rate r)%Q -> offset_rel r dt = None.
Proof. exact offset_refused_after. Qed.

(* statelessness: every read opens its own handle on the immutable file (open; seek; read; close).  For EVERY interleaving of
   the atomic steps of any number of concurrent reads, each read that runs to completion returns exactly what it returns alone:
   the file's samples [pos, pos + cnt) - no dependence on history, order or the other reads *)
Theorem C11_sequential : forall (Smp : Type) (file : list Smp) pos cnt,
  read_seq Smp file (pos, cnt) = Some (firstn (Z.to_nat cnt) (skipn (Z.to_nat pos) file)).
Proof. exact read_seq_spec. Qed.
Theorem C11_interleaving : forall (Smp : Type) (file : list Smp) reqs sched j,
  (forall i, In i sched -> (i < length reqs)%nat) -> (j < length reqs)%nat -> (4 <= count j sched)%nat ->
  result Smp (nth j (run Smp file reqs sched (map (fun _ => linit Smp) reqs)) (linit Smp)) = read_seq Smp file (nth j reqs (0, 0)).
Proof. exact concurrent_equals_sequential. Qed.
(* adjacent reads concatenate to the spanning read (no Hilbert conversion) *)
Theorem C11_adjacent : forall (Smp : Type) (file : list Smp) pos n1 n2, 0 <= pos -> 0 <= n1 -> 0 <= n2 ->
  firstn (Z.to_nat n1) (skipn (Z.to_nat pos) file) ++ firstn (Z.to_nat n2) (skipn (Z.to_nat (pos + n1)) file) =
  firstn (Z.to_nat (n1 + n2)) (skipn (Z.to_nat pos) file).
Proof. exact adjacent_reads. Qed.

Example C11_witness :     (* three concurrent reads of a 6-sample file under a scrambled schedule *)
  let file := [10; 11; 12; 13; 14; 15] in
  let reqs := [(1, 3); (0, 2); (4, 2)] in
  map (result Z) (run Z file reqs [0; 1; 1; 2; 0; 2; 1; 0; 2; 2; 1; 0]%nat (map (fun _ => linit Z) reqs))
  = [Some [11; 12; 13]; Some [10; 11]; Some [14; 15]].
Proof. reflexivity. Qed.

(* PARTIAL (correspondence + monitor only): baseband's decoding of VDIF / DADA / GUPPI payloads, real threads and the OS,
   the Hilbert conversion of real-sampled files (C19), sideband conjugation / channel flip / axis order against the file. *)

(* tie to the source by translation (T13): time_at (both forms), the product offset_at rounds and its bounds test, the three guards of
   read(), the start time it hands on and the seek / read arguments of _read_baseband (real and complex baseband) are GENERATED from
   readers/_base.py and readers/_baseband_readers.py on this run; the model is proved equal to them *)
Theorem C11_generated_positions : forall r k dt t,
  time_rel r k = gen_time_rel r k /\ time_at r k = gen_time_at r k /\ offset_rel r dt = gen_offset_rel r dt /\
  offset_at r t = match r_t0 r with Some t0 => gen_offset_rel r (t - t0)%Q | None => None end.
Proof. exact (fun r k dt t => conj (time_rel_generated r k) (conj (time_at_generated r k) (conj (offset_rel_generated r dt) (offset_at_generated r t)))). Qed.
Theorem C11_generated_read : forall r offset n,
  read r offset n =
  if gen_read_bad_offset offset then RErr 1 else if gen_read_bad_n n then RErr 1
  else if gen_read_beyond r offset n then RErr 2
  else ROk n (gen_read_start r offset) (fst (gen_file_range (r_real r) offset n)) (snd (gen_file_range (r_real r) offset n)).
Proof. exact read_generated. Qed.
Theorem C11_generated_mask : gen_sideband_mask_is_boolean = true.
Proof. exact sideband_mask_generated. Qed.
Theorem C11_generated_lazy : gen_lazy_read_is_one_delayed_read = true.
Proof. exact lazy_read_generated. Qed.

Print Assumptions C11_read.
Print Assumptions C11_roundtrip_absolute.
Print Assumptions C11_interleaving.
Print Assumptions C11_adjacent.
Print Assumptions C11_offset_nearest.
Print Assumptions C11_refused_before_start.
Print Assumptions C11_generated_read.
