(* Proofs/PhaseCmpAll.v -- C15: the six comparison operators of the model's comparison branch agree with the exact order of
   the two-part values whenever these are equal or at least 2^-53 apart. *)
From Coq Require Import ZArith Reals Psatz Floats Bool.
From Flocq Require Import Core BinarySingleNaN PrimFloat.
From PB Require Import Proofs.TwoSumExact Model.Phase2 Proofs.Floor Proofs.DayFrac Proofs.DayFrac3 Proofs.DayFracTail Proofs.DayFracFold Proofs.PhaseCmp.
Open Scope R_scope.

Lemma eqb_R x y : fin x -> fin y -> PrimFloat.eqb x y = Req_bool (R_of x) (R_of y).
Proof. intros. rewrite eqb_equiv. apply Beqb_correct; assumption. Qed.

Lemma model_diff_is (a b : ph) : Phase2.phase_diff a b = PhaseCmp.phase_diff (p_int a) (p_frac a) (p_int b) (p_frac b).
Proof. reflexivity. Qed.

Theorem cmp_all (a b : ph) (k1 k2 : Z) :
  p_imag a = false -> p_imag b = false ->
  fin (p_int a) -> fin (p_frac a) -> fin (p_int b) -> fin (p_frac b) ->
  R_of (p_int a) = IZR k1 -> R_of (p_int b) = IZR k2 -> (Z.abs k1 <= 2 ^ 52)%Z -> (Z.abs k2 <= 2 ^ 52)%Z ->
  Rabs (R_of (p_frac a)) <= / 2 -> Rabs (R_of (p_frac b)) <= / 2 ->
  let T := (R_of (p_int a) + R_of (p_frac a)) - (R_of (p_int b) + R_of (p_frac b)) in
  (T = 0 \/ bpow radix2 (-53) <= Rabs T) ->
  op_cmp 0 (OPh a) (OPh b) = Some (Req_bool T 0) /\
  op_cmp 1 (OPh a) (OPh b) = Some (negb (Req_bool T 0)) /\
  op_cmp 2 (OPh a) (OPh b) = Some (Rlt_bool T 0) /\
  op_cmp 3 (OPh a) (OPh b) = Some (Rle_bool T 0) /\
  op_cmp 4 (OPh a) (OPh b) = Some (Rlt_bool 0 T) /\
  op_cmp 5 (OPh a) (OPh b) = Some (Rle_bool 0 T).
Proof.
  intros Ia Ib Fia Ffa Fib Ffb E1 E2 K1 K2 B1 B2 T HT.
  destruct (phase_diff_sign (p_int a) (p_frac a) (p_int b) (p_frac b) k1 k2 Fia Ffa Fib Ffb E1 E2 K1 K2 B1 B2)
    as (Fd & H0 & Hp & Hn).
  fold T in H0, Hp, Hn. rewrite <- model_diff_is in *.
  set (d := Phase2.phase_diff a b) in *.
  destruct R_zero as [E0 F0].
  unfold op_cmp, to_phase. rewrite Ia, Ib. cbn [Bool.eqb]. fold d.
  rewrite (eqb_R d 0%float Fd F0), (ltb_R d 0%float Fd F0), (leb_R d 0%float Fd F0),
          (ltb_R 0%float d F0 Fd), (leb_R 0%float d F0 Fd), E0.
  assert (P : 0 < bpow radix2 (-53)) by apply bpow_gt_0.
  destruct HT as [HT|HT].
  - specialize (H0 HT). rewrite H0, HT. repeat split; reflexivity.
  - unfold Rabs in HT. destruct (Rcase_abs T) as [Tn|Tp].
    + assert (Hd : R_of d < 0) by (apply Hn; lra).
      repeat split; f_equal.
      * rewrite !Req_bool_false by lra. reflexivity.
      * rewrite !Req_bool_false by lra. reflexivity.
      * rewrite !Rlt_bool_true by lra. reflexivity.
      * rewrite !Rle_bool_true by lra. reflexivity.
      * rewrite !Rlt_bool_false by lra. reflexivity.
      * rewrite !Rle_bool_false by lra. reflexivity.
    + assert (Hd : 0 < R_of d) by (apply Hp; lra).
      repeat split; f_equal.
      * rewrite !Req_bool_false by lra. reflexivity.
      * rewrite !Req_bool_false by lra. reflexivity.
      * rewrite !Rlt_bool_false by lra. reflexivity.
      * rewrite !Rle_bool_false by lra. reflexivity.
      * rewrite !Rlt_bool_true by lra. reflexivity.
      * rewrite !Rle_bool_true by lra. reflexivity.
Qed.
