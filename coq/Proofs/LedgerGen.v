(* Proofs/LedgerGen.v -- C01 (and C12, C18 through it): the arithmetic of Model/Ledger.time_slice IS the arithmetic translated from
   Signal._time_slice (Gen/GenLedger.v, regenerated from core.py on every run): the new start time, the new sample rate and the
   positive-step assertion.  A source change (s.start -> s.stop, / -> *, a dropped branch) changes the generated terms and breaks
   this lemma. *)
From Coq Require Import ZArith QArith Bool Lia.
From PB Require Import Lib.PySlice Model.Ledger Gen.GenLedger.
Open Scope Z_scope.

Theorem time_slice_generated (l : ledger) (a b c : option Z) :
  time_slice l a b c =
  match slice_indices a b c (len l) with
  | None => Err (match c with Some 0 => 3 | _ => 2 end)
  | Some (lo, hi, st) =>
      Ok {| t0 := gen_ts_start l lo hi st; rate := gen_ts_rate l lo hi st; len := range_len lo hi st |} lo st
  end.
Proof. reflexivity. Qed.

(* the assertion of the source (step > 0) is what the model's slice normalisation enforces *)
Theorem slice_guard_generated (a b c : option Z) (n lo hi st : Z) :
  slice_indices a b c n = Some (lo, hi, st) -> gen_ts_guard lo hi st = true.
Proof.
  unfold slice_indices, gen_ts_guard. intros H.
  destruct ((match c with None => 1 | Some s => s end) <=? 0) eqn:E; [discriminate|].
  injection H as _ _ <-. apply Z.ltb_lt. apply Z.leb_gt in E. exact E.
Qed.

(* the derived quantities, as the source's property bodies compute them *)
Theorem dt_generated l : dt_of l = gen_dt l.
Proof. reflexivity. Qed.
Theorem time_length_generated l : time_length l = gen_time_length l.
Proof. reflexivity. Qed.
Theorem stop_time_generated l : stop_time l = gen_stop_time l.
Proof. reflexivity. Qed.

(* fast_len: a plain time slice of the signal itself, z[ : prev_fast_len(len z)] (Gen/GenFastLenCrop.v, generated from transforms.fast_len) *)
From PB Require Import Model.FastLen Gen.GenFastLenCrop.
Theorem fast_len_generated (l : ledger) :
  step l OFastLen = match gen_fast_len_lo (len l), gen_fast_len_hi (len l) with
                    | Some lo, Some hi => time_slice l lo hi None
                    | _, _ => Err 9 end.
Proof. unfold step, gen_fast_len_lo, gen_fast_len_hi. destruct (prev_fast_len (len l)); reflexivity. Qed.

(* Signal.contains is the half-open test (t0 <= t) & (t < t1) - False without a start time -, its two isclose terms acting only within
   Time's resolution of an edge (pinned syntax tree, re-read on every run) *)
Theorem contains_generated : gen_contains_is_half_open = true.
Proof. reflexivity. Qed.
