(* Model/Disp.v -- dispersion delays (C06), incoherent dedispersion index logic (C06), chirp phase and
   coherent dedispersion crop (C05).  Frequencies in Hz, times in seconds, exact rationals.  The
   dispersion constant is read from the literal GENERATED out of dedispersion.py.  No proofs here. *)
From Coq Require Import ZArith QArith Qabs Qround Qminmax List Bool.
From PB Require Import Lib.PySlice Gen.GenConsts Model.FastLen Model.Ledger Model.Band.
Import ListNotations.
Open Scope Q_scope.

(* dispersion_constant = 1/<literal> s MHz^2 cm^3/pc *)
Definition Kdisp : Q := 1 / dispersion_literal.
Definition MHz (f : Q) : Q := f * (1 # 1000000).

(* DispersionMeasure.time_delay / sample_delay *)
Definition time_delay (dm f fr : Q) : Q := Kdisp * dm * (1 / (MHz f * MHz f) - 1 / (MHz fr * MHz fr)).
Definition sample_delay (dm f fr rate : Q) : Q := time_delay dm f fr * rate.

(* _transfer_function: phase in cycles = coeff * f * (1/fref - 1/f)^2, coeff = K*DM [s MHz^2] *)
Definition chirp_phase (dm f fr : Q) : Q := Kdisp * dm * 1000000 * MHz f * ((1 / MHz fr - 1 / MHz f) * (1 / MHz fr - 1 / MHz f)).

(* numpy round(): round half to even *)
Definition round_half_even (q : Q) : Z :=
  let f := Qfloor q in
  match Qcompare (q - inject_Z f) (1 # 2) with
  | Lt => f
  | Gt => (f + 1)%Z
  | Eq => if Z.even f then f else (f + 1)%Z
  end.

(* np.fft.fftfreq(N, 1): bin k -> k/N for k < ceil(N/2), (k-N)/N otherwise *)
Definition fftfreq (N k : Z) : Q := if (2 * k <? N)%Z then inject_Z k / inject_Z N else inject_Z (k - N) / inject_Z N.

(* ---------- coherent dedispersion: crop ---------- *)
Definition crop_start (dtop dbot : Q) : Z := Qceiling (- Qmin 0 (Qmin dtop dbot)).
Definition crop_stop (N : Z) (dtop dbot : Q) : Z := (N - Qceiling (Qmax 0 (Qmax dtop dbot)))%Z.
(* fmax, fmin: the band edges the code holds (z.max_freq, z.min_freq; related to the band by C02) *)
Definition coherent_crop (l : ledger) (fmax fmin : Q) (dm fr : Q) : res :=
  let dtop := sample_delay dm fmax fr (rate l) in
  let dbot := sample_delay dm fmin fr (rate l) in
  step l (ODedispCrop (crop_start dtop dbot) (crop_stop (len l) dtop dbot)).

(* ---------- incoherent dedispersion ---------- *)
Definition chan_delays (b : band) (dm fr rate : Q) : list Z :=
  map (fun f => round_half_even (sample_delay dm f fr rate)) (labels b).
Definition zmin_list (d : Z) (l : list Z) : Z := fold_right Z.min d l.
Definition zmax_list (d : Z) (l : list Z) : Z := fold_right Z.max d l.

(* result: ledger, crop_before, shifted delays d'_i (output sample k of channel i = input sample k + d'_i).
   Err 1 = ValueError (np.stack of unequal lengths / empty delays) *)
Inductive ires := IOk (l : ledger) (cb : Z) (ds : list Z) | IErr (e : Z).
Definition incoherent (l : ledger) (ds : list Z) : ires :=
  match ds with
  | [] => IErr 1
  | d0 :: _ =>
    let dl := last ds d0 in
    let cb := (- Z.min 0 (Z.min d0 dl))%Z in
    let ds' := map (fun d => (d + cb)%Z) ds in
    let N := (len l - zmax_list (d0 + cb) ds')%Z in
    (* z.data[j : j + N, i] through CPython slice semantics *)
    let lens := map (fun j => match slice_indices (Some j) (Some (j + N)%Z) None (len l) with
                              | Some (lo, hi, st) => range_len lo hi st | None => 0%Z end) ds' in
    match lens with
    | [] => IErr 1
    | n0 :: _ =>
      if forallb (fun n => (n =? n0)%Z) lens then
        IOk {| t0 := match t0 l with
                     | None => None
                     | Some t => Some (if (cb =? 0)%Z then t else t + inject_Z cb * (1 / rate l)) end;
               rate := rate l; len := n0 |} cb ds'
      else IErr 1
    end
  end.
