(* probe: polarisation conversions and Stokes identities (C13) over R *)
From Coq Require Import Reals Lra Psatz.
Open Scope R_scope.

Definition C := (R * R)%type.
Definition cadd (a b : C) : C := (fst a + fst b, snd a + snd b).
Definition csub (a b : C) : C := (fst a - fst b, snd a - snd b).
Definition cmul (a b : C) : C := (fst a * fst b - snd a * snd b, fst a * snd b + snd a * fst b).
Definition cconj (a : C) : C := (fst a, - snd a).
Definition cscale (r : R) (a : C) : C := (r * fst a, r * snd a).
Definition ci : C := (0, 1).
Definition nrm2 (a : C) : R := fst a * fst a + snd a * snd a.     (* z.real**2 + z.imag**2 *)

Section Pol.
  Variable c : R.                      (* 1/sqrt 2 *)
  Hypothesis c2 : 2 * (c * c) = 1.

  (* core.py to_circular:  L = X - iY, R = X + iY, / sqrt 2 ;  to_linear:  X = L + R, Y = i (L - R), / sqrt 2 *)
  Definition to_circ (x y : C) : C * C := (cscale c (csub x (cmul ci y)), cscale c (cadd x (cmul ci y))).
  Definition to_lin (l r : C) : C * C := (cscale c (cadd l r), cscale c (cmul ci (csub l r))).

  (* to_stokes, linear and circular branches *)
  Definition stokes_lin (x y : C) : R * R * R * R :=
    let xy := cmul (cconj x) y in (nrm2 x + nrm2 y, nrm2 x - nrm2 y, 2 * fst xy, 2 * snd xy).
  Definition stokes_circ (l r : C) : R * R * R * R :=
    let lr := cmul (cconj l) r in (nrm2 l + nrm2 r, 2 * fst lr, 2 * snd lr, nrm2 l - nrm2 r).

  Lemma c2' : c ^ 2 = / 2. Proof. simpl. lra. Qed.
  Ltac fin := match goal with |- @eq R _ _ => (ring_simplify; rewrite ?c2'; lra) | _ => idtac end.
  Ltac crush := unfold to_circ, to_lin, stokes_lin, stokes_circ, cscale, cadd, csub, cmul, cconj, ci, nrm2 in *; cbn [fst snd] in *.

  Theorem unitary x y : let '(l, r) := to_circ x y in nrm2 l + nrm2 r = nrm2 x + nrm2 y.
  Proof. destruct x as [xr xi], y as [yr yi]. crush. fin. Qed.

  Theorem lin_circ_inverse x y : let '(l, r) := to_circ x y in to_lin l r = (x, y).
  Proof. destruct x as [xr xi], y as [yr yi]. crush. repeat (apply injective_projections; cbn [fst snd]); fin. Qed.

  Theorem circ_lin_inverse l r : let '(x, y) := to_lin l r in to_circ x y = (l, r).
  Proof. destruct l as [lr li], r as [rr ri]. crush. repeat (apply injective_projections; cbn [fst snd]); fin. Qed.

  Theorem stokes_basis_independent x y : let '(l, r) := to_circ x y in stokes_circ l r = stokes_lin x y.
  Proof. destruct x as [xr xi], y as [yr yi]. crush. repeat (apply injective_projections; cbn [fst snd]); fin. Qed.

  Theorem stokes_IQUV x y : let '(si, sq, su, sv) := stokes_lin x y in si * si = sq * sq + su * su + sv * sv /\ 0 <= si.
  Proof. destruct x as [xr xi], y as [yr yi]. crush. split; [ring|nra]. Qed.
End Pol.

(* non-vacuity: c = / sqrt 2 satisfies the hypothesis *)
Lemma c_exists : 2 * (/ sqrt 2 * / sqrt 2) = 1.
Proof. rewrite <- Rinv_mult. rewrite sqrt_sqrt by lra. lra. Qed.
Definition unitary_R := unitary (/ sqrt 2) c_exists.
Print Assumptions unitary_R.
