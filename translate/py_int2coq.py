#!/usr/bin/env python3
"""Probe of translator T1: integer Python (ast) -> shallow Gallina over Z with fuel loops.
Fail-closed: any construct outside the subset raises Unsupported."""
import ast, sys, textwrap

class Unsupported(Exception): pass

CMP = {ast.Lt: 'Z.ltb', ast.LtE: 'Z.leb', ast.Gt: 'Z.gtb', ast.GtE: 'Z.geb', ast.Eq: 'Z.eqb'}
BIN = {ast.Add: 'Z.add', ast.Sub: 'Z.sub', ast.Mult: 'Z.mul', ast.FloorDiv: 'Z.div', ast.Mod: 'Z.modulo',
       ast.LShift: 'Z.shiftl', ast.RShift: 'Z.shiftr', ast.BitAnd: 'Z.land', ast.BitOr: 'Z.lor'}

class Fn:
    def __init__(self, node):
        self.node = node; self.name = node.name
        if node.args.defaults or node.args.kwonlyargs or node.args.vararg or node.args.kwarg:
            raise Unsupported('signature')
        self.params = [a.arg for a in node.args.args]
        self.locals = list(self.params)
        for n in ast.walk(node):
            if isinstance(n, ast.Name) and isinstance(n.ctx, ast.Store) and n.id not in self.locals:
                self.locals.append(n.id)
        self.loops = []   # emitted Fixpoints, innermost first
    # expressions -------------------------------------------------------
    def e(self, n):
        if isinstance(n, ast.Constant) and type(n.value) is int:
            return f'({n.value})' if n.value < 0 else f'{n.value}'
        if isinstance(n, ast.Name):
            if n.id not in self.locals: raise Unsupported(f'free name {n.id}')
            return f'(v_{n.id} s)'
        if isinstance(n, ast.BinOp) and type(n.op) in BIN:
            return f'({BIN[type(n.op)]} {self.e(n.left)} {self.e(n.right)})'
        if isinstance(n, ast.UnaryOp) and isinstance(n.op, ast.USub):
            return f'(Z.opp {self.e(n.operand)})'
        raise Unsupported(ast.dump(n))
    def c(self, n):  # condition -> bool
        if isinstance(n, ast.Compare) and len(n.ops) == 1 and type(n.ops[0]) in CMP:
            return f'({CMP[type(n.ops[0])]} {self.e(n.left)} {self.e(n.comparators[0])})'
        if isinstance(n, ast.Constant) and n.value in (1, True): return 'true'
        if isinstance(n, ast.BoolOp):
            op = 'andb' if isinstance(n.op, ast.And) else 'orb'
            out = self.c(n.values[0])
            for v in n.values[1:]: out = f'({op} {out} {self.c(v)})'
            return out
        if isinstance(n, ast.UnaryOp) and isinstance(n.op, ast.Not): return f'(negb {self.c(n.operand)})'
        # integer truthiness
        return f'(negb (Z.eqb {self.e(n)} 0))'
    # statements: each returns a Gallina term of type `outcome st` with free var s ------
    def setv(self, names, exprs):
        # simultaneous assignment
        fields = ' '.join((exprs[names.index(l)] if l in names else f'(v_{l} s)') for l in self.locals)
        return f'(mk {fields})'
    def stmt(self, n):
        if isinstance(n, ast.Assign):
            if len(n.targets) != 1: raise Unsupported('multi-target')
            t = n.targets[0]
            if isinstance(t, ast.Name): return f'Normal {self.setv([t.id], [self.e(n.value)])}'
            if isinstance(t, ast.Tuple) and isinstance(n.value, ast.Tuple) and len(t.elts) == len(n.value.elts) \
               and all(isinstance(x, ast.Name) for x in t.elts):
                return f'Normal {self.setv([x.id for x in t.elts], [self.e(v) for v in n.value.elts])}'
            raise Unsupported('assign target')
        if isinstance(n, ast.AugAssign) and isinstance(n.target, ast.Name) and type(n.op) in BIN:
            v = f'({BIN[type(n.op)]} (v_{n.target.id} s) {self.e(n.value)})'
            return f'Normal {self.setv([n.target.id], [v])}'
        if isinstance(n, ast.Return):
            if n.value is None: raise Unsupported('bare return')
            return f'Ret {self.e(n.value)}'
        if isinstance(n, ast.Break): return 'Brk s'
        if isinstance(n, ast.Pass): return 'Normal s'
        if isinstance(n, ast.If):
            return f'(if {self.c(n.test)} then {self.block(n.body)} else {self.block(n.orelse)})'
        if isinstance(n, ast.While):
            if n.orelse: raise Unsupported('while-else')
            k = len(self.loops) + 1   # reserve after inner loops are emitted
            body = self.block(n.body)
            k = len(self.loops) + 1
            name = f'loop{k}'
            self.loops.append(
                f'Fixpoint {name} (fuel : nat) (s : st) {{struct fuel}} : outcome st :=\n'
                f'  match fuel with O => OutOfFuel | S fuel\' =>\n'
                f'    if {self.c(n.test)} then\n'
                f'      match {body} with\n'
                f'      | Normal s\' => {name} fuel\' s\' | Brk s\' => Normal s\' | Ret v => Ret v | OutOfFuel => OutOfFuel end\n'
                f'    else Normal s\n  end.\n'
                f'(* line {n.lineno}: while {ast.unparse(n.test)} *)')
            # inner loops receive the *whole* budget of the enclosing call: fuel0
            return f'({name} fuel0 s)'
        if isinstance(n, ast.Expr) and isinstance(n.value, ast.Constant) and isinstance(n.value.value, str):
            return 'Normal s'   # docstring
        raise Unsupported(ast.dump(n)[:80])
    def block(self, stmts):
        if not stmts: return '(Normal s)'
        out = None
        for st in reversed(stmts):
            t = self.stmt(st)
            out = f'({t})' if out is None else f'(seq ({t}) (fun s => {out}))'
        return out
    def emit(self):
        body = self.block(self.node.body)
        L = self.locals
        recf = '; '.join(f'v_{l} : Z' for l in L)
        init = ' '.join((l if l in self.params else '0') for l in L)
        params = ' '.join(f'({p} : Z)' for p in self.params)
        out = [f'Module {self.name}.', f'Record st := mk {{ {recf} }}.', 'Section Fuel.', 'Variable fuel0 : nat.']
        out += self.loops
        out += [f'Definition body (s : st) : outcome st := {body}.', 'End Fuel.',
                f'Definition run (fuel : nat) {params} : outcome st := body fuel (mk {init}).',
                f'End {self.name}.']
        return '\n'.join(out)

HEADER = '''(* GENERATED by translate/py_int2coq.py from pulsarbat/utils.py -- do not edit *)
From Coq Require Import ZArith Bool.
Open Scope Z_scope.
Inductive outcome (S : Type) : Type := Normal (s : S) | Brk (s : S) | Ret (v : Z) | OutOfFuel.
Arguments Normal {S}. Arguments Brk {S}. Arguments Ret {S}. Arguments OutOfFuel {S}.
Definition seq {S} (a : outcome S) (k : S -> outcome S) : outcome S :=
  match a with Normal s => k s | Brk s => Brk s | Ret v => Ret v | OutOfFuel => OutOfFuel end.
'''
def generate(path, names):
    tree = ast.parse(open(path).read())
    parts = [HEADER]
    found = []
    for n in tree.body:
        if isinstance(n, ast.FunctionDef) and n.name in names:
            # decorators: only the (semantically transparent for pure functions) lru_cache is accepted
            for d in n.decorator_list:
                if 'lru_cache' not in ast.unparse(d):
                    raise Unsupported(f'decorator {ast.unparse(d)}')
            parts.append(Fn(n).emit())
            found.append(n.name)
    if sorted(found) != sorted(names):
        raise Unsupported(f'functions not found: {set(names) - set(found)}')
    return '\n\n'.join(parts) + '\n'
def main(path, names, out):
    open(out, 'w').write(generate(path, names))
if __name__ == '__main__':
    main(sys.argv[1], sys.argv[2].split(','), sys.argv[3])
