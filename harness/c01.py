"""C01: retained samples keep their absolute timestamps under every crop or slice.
(P) Props/C01.v over the exact ledger model; (T) model-vs-implementation on random pipelines, evaluated by
vm_compute; (M) C01_ok (Coq, executable) evaluated on the implementation's own observations."""
import math
from fractions import Fraction
import numpy as np
import astropy.units as u
from astropy.time import Time
import pulsarbat as pb
from harness.common import qlit, zlit, optlit, listlit, boollit
from harness import exact as X

VFILES = ['Lib/PySlice.v', 'Model/FastLen.v', 'Model/Ledger.v', 'Proofs/LedgerProofs.v', 'Gen/GenLedger.v', 'Gen/GenFastLenCrop.v', 'Proofs/LedgerGen.v', 'Model/Band.v', 'Model/Getitem.v', 'Gen/GenGetitem.v', 'Proofs/GetitemProofs.v', 'Props/C01.v',
          'Gen/GenUtils.v', 'Proofs/FastLenA.v', 'Proofs/FastLenB.v', 'Proofs/FastLenPrev.v', 'Proofs/FastLenTop.v']

HEADER = '''From Coq Require Import ZArith QArith List. Import ListNotations. Open Scope Z_scope.
From PB Require Import Lib.PySlice Model.Ledger.
Definition L (t : option Q) (r : Q) (n : Z) : ledger := {| t0 := t; rate := r; len := n |}.
Definition O (n : Z) (t : option Q) (r : Q) (s : option Q) (d tl : Q) (f st : option Z) (c : list (Q * bool)) : obs :=
  {| o_len := n; o_t0 := t; o_rate := r; o_stop := s; o_dt := d; o_tlen := tl; o_first := f; o_stride := st; o_contains := c |}.
Definition same_err (e ierr : Z) : bool := (e =? ierr) || ((e =? 3) && (ierr =? 1)).
(* low 3 digits: correspondence (model vs implementation); thousands: the property monitor C01_ok *)
(* operations that rewrite sample values (FFT paths) leave no index code to read back: the provenance
   fields of the observation are then taken from the model (coded = false) *)
Definition patch (coded : bool) (off st : Z) (ob : obs) : obs :=
  if coded then ob else
  {| o_len := o_len ob; o_t0 := o_t0 ob; o_rate := o_rate ob; o_stop := o_stop ob; o_dt := o_dt ob; o_tlen := o_tlen ob;
     o_first := if 0 <? o_len ob then Some off else None; o_stride := if 1 <? o_len ob then Some st else None;
     o_contains := o_contains ob |}.
Definition chk (l : ledger) (o : op) (impl0 : option obs) (ierr : Z) (ttol rtol : Q) (coded : bool) : Z :=
  match step l o, impl0 with
  | Ok l' off st, Some ob0 => let ob := patch coded off st ob0 in obs_diff ttol rtol (obs_of_model l' off st (map fst (o_contains ob))) ob + 1000 * C01_ok ttol rtol l ob
  | Err e, None => if same_err e ierr then 0 else 64
  | Ok _ _ _, None => 128
  | Err _, Some _ => 256
  end.
(* whole pipeline from the initial ledger: composed provenance and final ledger *)
Definition chkrun (l : ledger) (ops : list op) (n : Z) (t : option Q) (r : Q) (ttol rtol : Q) : Z :=
  match run l ops with
  | Ok l' off st => (if len l' =? n then 0 else 1) + (if oQclose ttol (t0 l') t then 0 else 2) + (if Qclose (rtol * r) (rate l') r then 0 else 4)
  | Err _ => 512
  end.
'''


def ledger_lit(z):
    return f'(L {optlit(X.sec(z.start_time), qlit)} {qlit(X.hz(z.sample_rate))} {len(z)})'


def probes_for(y, rng):
    """(Time, expected-free) probes: exact edge objects, mid-sample instants around both edges, random."""
    ps = []
    if y.start_time is None:
        t = Time('2020-01-01T00:00:00', precision=9)
        return [t, t + 1 * u.s]
    n = len(y)
    ps.append(y.start_time)
    ps.append(y.stop_time)
    dt = y.dt
    for k in {-1, 0, n - 1, n, n // 2}:
        ps.append(y.start_time + (k + 0.5) * dt)
    ps.append(y.start_time + rng.uniform(-2, n + 2) * dt)
    return ps


def obs_lit(y, rng):
    first, stride = X.first_index(y) if getattr(y, '_coded', True) else (None, None)
    if hasattr(y, '_first_override'):
        first, stride = y._first_override, (1 if len(y) >= 2 else None)
    probes = probes_for(y, rng)
    cs = []
    for t in probes:
        b = bool(y.contains(t))
        cs.append(f'({qlit(X.sec(t))}, {boollit(b)})')
    return (f'(O {len(y)} {optlit(X.sec(y.start_time), qlit)} {qlit(X.hz(y.sample_rate))} '
            f'{optlit(X.sec(y.stop_time), qlit)} {qlit(X.secs(y.dt))} {qlit(X.secs(y.time_length))} '
            f'{optlit(first, zlit)} {optlit(stride, zlit)} [{"; ".join(cs)}])'), first, stride


def rand_bound(rng, n):
    r = rng.random()
    if r < 0.2:
        return None
    if r < 0.3:
        return rng.choice([0, n, -n, n + 1, -n - 1, n + 5, -n - 5, -1, 1])
    return rng.randint(-n - 2, n + 2)


def gen_op(rng, z, malformed):
    """Returns (kind, coq_op_term, thunk) ; thunk() applies the op to the implementation."""
    n = len(z)
    kinds = ['slice'] * 5 + ['fast_len', 'snippet', 'snippet']
    if 1 <= n <= 600:
        kinds += ['shiftcrop', 'shiftcrop']
        if isinstance(z, pb.BasebandSignal):
            kinds += ['dedisp'] * 2
        if isinstance(z, pb.RadioSignal) and not isinstance(z, pb.BasebandSignal):
            kinds += ['incoh'] * 4
    k = rng.choice(kinds)
    if k == 'slice':
        a, b = rand_bound(rng, n), rand_bound(rng, n)
        c = rng.choice([None, None, 1, 1, 2, 3, 5, 7, n + 1, max(1, n)])
        if malformed and rng.random() < 0.5:
            c = rng.choice([0, -1, -2])
        term = f'(OSlice {optlit(a, zlit)} {optlit(b, zlit)} {optlit(c, zlit)})'
        # the same crop written in every index form __getitem__ accepts (C01_getitem: all of them are time_slice on item 0)
        forms = ['plain', 'plain', 'tuple1'] + (['freq_full', 'freq_full_ellipsis'] if isinstance(z, pb.RadioSignal) else ['ellipsis'])
        if z.ndim >= 2:
            forms.append('axis1_full')
        form = rng.choice(forms)
        ix = {'plain': slice(a, b, c), 'tuple1': (slice(a, b, c),), 'ellipsis': (slice(a, b, c), Ellipsis),
              'freq_full': (slice(a, b, c), slice(None)), 'freq_full_ellipsis': (slice(a, b, c), slice(None), Ellipsis),
              'axis1_full': (slice(a, b, c), slice(None, None, None))}[form]
        return k, term, (lambda: z[ix]), dict(a=a, b=b, c=c, form=form)
    if k == 'fast_len':
        return k, 'OFastLen', (lambda: pb.fast_len(z)), {}
    if k == 'snippet':
        if malformed:
            t, m = rng.choice([(-1, 1), (0, n + 1), (n, 1), (0, -1), (n + 1, 0), (max(0, n - 1), 2)])
        else:
            t = rng.randint(0, n)
            m = rng.randint(0, n - t)
        tt = rng.choice([t, float(t), np.int64(t)])
        return k, f'(OSnippet {zlit(t)} {zlit(m)})', (lambda: pb.snippet(z, tt, m)), dict(t=t, n=m, t_kind=type(tt).__name__)
    if k == 'shiftcrop':
        shp = z.sample_shape
        r = rng.random()
        big = rng.random() < 0.2
        lim = (2.2 * n) if big else max(1.0, n / 3)

        def val():
            v = rng.uniform(-lim, lim)
            return float(round(v)) if rng.random() < 0.4 else v
        if r < 0.5 or not shp:
            s = val()
        else:
            nd = rng.randint(1, len(shp))
            sh = tuple(d if rng.random() < 0.7 else 1 for d in shp[:nd])
            s = np.array([val() for _ in range(int(np.prod(sh)))]).reshape(sh)
        arr = np.asarray(s, dtype=float)
        if np.allclose(arr, 0):
            arr = arr + 1.5
            s = arr if arr.ndim else float(arr)
        pos = [math.ceil(a) for a in arr.ravel() if not a < 0]
        neg = [math.floor(a) for a in arr.ravel() if a < 0]
        start, stop = max([0] + pos), min([0] + neg)
        as_q = rng.random() < 0.2
        sv = (arr * z.dt) if as_q else s
        if as_q:
            # recompute from the float values the code will see
            back = (sv * z.sample_rate).to_value(u.one)
            backa = np.asarray(back, dtype=float)
            pos = [math.ceil(a) for a in backa.ravel() if not a < 0]
            neg = [math.floor(a) for a in backa.ravel() if a < 0]
            start, stop = max([0] + pos), min([0] + neg)

        def thunk():
            y = pb.time_shift(z, sv, crop=True)
            y._coded = False
            return y
        return k, f'(OShiftCrop {zlit(start)} {zlit(stop)})', thunk, dict(shift=np.asarray(arr).tolist(), quantity=as_q)
    if k == 'dedisp':
        dm = pb.DM(rng.choice([-1, 1]) * 10 ** rng.uniform(-3, 1.5))
        ref = rng.choice([None, z.center_freq, z.max_freq, z.min_freq, z.center_freq * 1.1])
        rf = z.center_freq if ref is None else ref
        dtop = dm.sample_delay(z.max_freq, rf, z.sample_rate)
        dbot = dm.sample_delay(z.min_freq, rf, z.sample_rate)
        if not (math.isfinite(float(dtop)) and math.isfinite(float(dbot))):
            # a band edge at 0 Hz: the delay is infinite and the library's own crop arithmetic raises OverflowError - outside the
            # property (no finite crop exists); a plain full slice is recorded instead
            return 'slice_full', '(OSlice None None None)', (lambda: z[:]), dict(note='band reaches 0 Hz: dedispersion skipped')
        start = math.ceil(-min(0, dtop, dbot))
        stop = n - math.ceil(+max(0, dtop, dbot))

        def thunk():
            y = pb.coherent_dedispersion(z, dm, ref_freq=ref)
            y._coded = False
            return y
        return k, f'(ODedispCrop {zlit(start)} {zlit(stop)})', thunk, dict(dm=float(dm.value), start=start, stop=stop)
    if k == 'incoh':
        dm = pb.DM(rng.choice([-1, 1]) * 10 ** rng.uniform(-3, 1.0))
        # also references outside the band: every channel is then delayed in the same direction (no channel has delay <= 0)
        ref = rng.choice([None, z.max_freq, z.min_freq, z.max_freq * 1.5, z.center_freq * 10, z.min_freq / 2])
        rf = z.center_freq if ref is None else ref
        if rng.random() < 0.5 and n >= 8:
            # every channel delayed the same way by a few samples: reference above the band (DM > 0) / below it (DM < 0),
            # DM sized so that the nearest band edge is m samples from the reference
            above = rng.random() < 0.5
            ref = rf = (z.max_freq * rng.choice([1.5, 4.0])) if above else (z.min_freq / rng.choice([1.5, 4.0]))
            m = rng.randint(1, max(1, n // 4))
            edge = z.max_freq if above else z.min_freq
            unit = abs(float(pb.DM(1.0).sample_delay(edge, rf, z.sample_rate)))
            if unit > 0 and np.isfinite(unit):
                dm = pb.DM((1 if above else -1) * m / unit)
        d = dm.sample_delay(z.channel_freqs, rf, z.sample_rate)
        d = np.asarray(d).round().astype(np.int64)
        cb = int(-min(0, d[0], d[-1]))
        nout = int(n - max(d + cb))
        if nout < 0 or cb + nout > n or not (np.all(np.diff(d) <= 0) or np.all(np.diff(d) >= 0)) or float(z.min_freq.value) <= 0:
            # degenerate crops (delays beyond the signal, reference outside the band) are C06's subject
            return gen_op(rng, z, malformed)

        def thunk():
            y = pb.incoherent_dedispersion(z, dm, ref_freq=ref)
            # provenance of the reference (zero-delay) track: out[k, i] = k + d_i + cb
            if len(y):
                a = np.asarray(y.data).reshape(len(y), len(d), -1).real[:, :, 0]
                y._first_override = int(round(float(a[0, 0]))) - int(d[0])
            y._coded = False
            return y
        return k, f'(OIncohCrop {zlit(cb)} {zlit(nout)})', thunk, dict(dm=float(dm.value), delays=d.tolist())
    raise AssertionError


ERR = {ValueError: 1, AssertionError: 2}


def run(ctx):
    rng = ctx.rng
    ctx.rule = ('random pipelines of 1-6 cropping ops (slice with in/out-of-range/negative/None bounds and steps, fast_len, '
                'time_shift(crop=True), whole-sample snippet, coherent/incoherent dedispersion crops) on all six signal classes, '
                'index-coded data; plus an exhaustive sweep of all slices on lengths 0..6, bounds in [-8,8]+None, steps 1..4. '
                'A case is one (input ledger, op); non-trivial = the op returned a signal with >= 1 sample or raised; distinct by '
                '(class, len, rate, start, op).')
    ctx.trusted = ['translator T4 translate/py_ledger2coq.py (Signal._time_slice, dt, time_length, stop_time as exact-rational terms; `.to(unit)` = identity) and T6 (fast_len crop)', 'Coq 8.16.1 kernel; vm_compute for case evaluation', 'Lib/PySlice.v = CPython slice.indices (modelled; validated here)',
                   'astropy Time/Quantity arithmetic = exact rational arithmetic within max(50 ps, 1e-15*elapsed) (measured)',
                   'harness/exact.py (TAI seconds), this generator and the generated Cases/*.v text']
    ctx.assumptions = ['astropy Time/Quantity rounding stays below the stated tolerance (worst ratio is reported)',
                       'sample rates 1 mHz - 5 GHz (above, Time.isclose fuzz is comparable to a sample)']
    built = ctx.build(['Props/C01.vo'])
    ctx.count_obligations(VFILES)
    if built:
        ctx.assumptions_of('Props/C01.v', allowed=set())

    npipes = 260 if ctx.tier == 'quick' else 4000
    items, meta = [], []
    RT = Fraction(1, 10 ** 13)

    def ttol_for(z):
        el = Fraction(len(z) + 8) / X.hz(z.sample_rate)
        return max(Fraction(50, 10 ** 12), el / 10 ** 15 * 4)

    def one_step(z, kind, term, thunk, info, pipe_id):
        lin = ledger_lit(z)
        tt = ttol_for(z)
        inp = dict(cls=type(z).__name__, len=len(z), rate=str(z.sample_rate), start_time=None if z.start_time is None else z.start_time.isot,
                   shape=list(z.shape), op=kind, args=info)
        ctx.count(kind)
        try:
            y = thunk()
        except Exception as e:
            code = ERR.get(type(e), 0)
            if code == 0 and isinstance(e, ValueError):
                code = 1
            for t_, c_ in ERR.items():
                if isinstance(e, t_):
                    code = c_
            ctx.count('raised:' + type(e).__name__)
            ctx.seen(inp, nontrivial=True)
            items.append(f'chk {lin} {term} None {code} {qlit(tt)} {qlit(RT)} true')
            meta.append(dict(inp=inp, impl=f'raised {type(e).__name__}: {e}', y=None))
            return None
        coded = getattr(y, '_coded', True)
        if hasattr(y, '_first_override'):
            # incoherent: provenance of the zero-delay track, read back from the coded data
            coded = True
        ol, first, stride = obs_lit(y, rng)
        # (M) an empty result whose stop_time does not come after its start_time (as the Time objects compare) contains nothing, not even
        # those coincident edges.  (Where Time arithmetic leaves start + 0 s one ulp later, membership of the start is the code's documented
        # edge rule - the model's clause leaves those probes unconstrained.)
        if len(y) == 0 and y.start_time is not None and not (y.start_time < y.stop_time):
            ctx.count('empty_result_probed')
            if bool(y.contains(y.start_time)) or bool(y.contains(y.stop_time)):
                ctx.fail('empty_signal_contains_its_edge', inp, impl=[bool(y.contains(y.start_time)), bool(y.contains(y.stop_time))])
        if getattr(y, '_coded', True):
            if not X.coded_consistent(y, first if first is not None else 0, stride):
                ctx.fail('data_not_an_affine_subset', inp, impl='index-coded data of the result is not first+stride*k')
        ctx.seen(inp, nontrivial=len(y) >= 1)
        ctx.count('len0_out' if len(y) == 0 else 'len1_out' if len(y) == 1 else 'lenN_out')
        ctx.count('no_start' if y.start_time is None else 'with_start')
        items.append(f'chk {lin} {term} (Some {ol}) 0 {qlit(tt)} {qlit(RT)} {boollit(coded)}')
        meta.append(dict(inp=inp, impl=dict(len=len(y), start=None if y.start_time is None else y.start_time.isot,
                                            rate=str(y.sample_rate), first=first, stride=stride), y=None))
        return y

    # corpus first (minimised past failures), then random pipelines
    for p in range(npipes):
        cls = rng.choice(X.CLASSES)
        L = rng.choice([0, 1, 2, 3, 7, 8, 16, 31, 64, 100, rng.randint(0, 300), rng.randint(300, 4096)])
        z0 = X.make_signal(rng, cls, L)
        z = z0
        terms = []
        nops = rng.randint(1, 6)
        alive = True
        for j in range(nops):
            if rng.random() < 0.15:
                # the signal is inspected (stop_time, contains), then RE-LABELLED through its public setters, then inspected again as the
                # same object: stop_time = start_time + len / sample_rate and the half-open extent must follow the new labels
                try:
                    _ = z.stop_time, [bool(z.contains(t)) for t in probes_for(z, rng)]
                    how = rng.choice(['start+1h', 'rate/4', 'start=None', 'start=given'])
                    if how == 'start+1h' and z.start_time is not None:
                        z.start_time = z.start_time + 3600 * u.s
                    elif how == 'rate/4':
                        z.sample_rate = z.sample_rate / 4
                    elif how == 'start=None':
                        z.start_time = None
                    else:
                        z.start_time = Time('2021-06-07T08:09:10.25', precision=9)
                    zz = z
                    y = one_step(zz, 'relabel:' + how, '(OSlice None None None)', (lambda: zz), dict(how=how), p)
                    if y is None:
                        alive = False
                        break
                    terms.append('(OSlice None None None)')
                    z0, terms = z, []                    # the pipeline theorem is stated from the first ledger: restart it here
                except Exception as e:
                    ctx.fail('relabel_raised', dict(cls=cls, len=len(z), pipeline_pos=j), impl=repr(e))
                    alive = False
                    break
            malformed = rng.random() < 0.08
            kind, term, thunk, info = gen_op(rng, z, malformed)
            y = one_step(z, kind, term, thunk, info, p)
            if y is None:
                alive = False
                break
            terms.append(term)
            z = X.recode(y)
        if alive and terms:
            tt = ttol_for(z0) * (len(terms) + 1)
            items.append(f'chkrun {ledger_lit(z0)} [{"; ".join(terms)}] {len(z)} {optlit(X.sec(z.start_time), qlit)} '
                         f'{qlit(X.hz(z.sample_rate))} {qlit(tt)} {qlit(RT * 8)}')
            meta.append(dict(inp=dict(cls=cls, len=L, pipeline=terms), impl=dict(len=len(z)), y=None, run=True))
            ctx.count('pipelines')
            ctx.count(f'pipeline_len_{len(terms)}')

    # exhaustive small sweep of slices (thorough: all; quick: a random 1/12 of it)
    bounds = [None] + list(range(-8, 9))
    sweep = 0
    for L in range(0, 7):
        z = X.make_signal(rng, 'Signal', L, sshape=(), rate=1 * u.Hz, start=Time('2020-01-01T00:00:00', precision=9))
        for a in bounds:
            for b in bounds:
                for c in (None, 1, 2, 3, 4):
                    if ctx.tier == 'quick' and rng.random() > 1 / 12:
                        continue
                    sweep += 1
                    one_step(z, 'slice', f'(OSlice {optlit(a, zlit)} {optlit(b, zlit)} {optlit(c, zlit)})',
                             (lambda a=a, b=b, c=c: z[a:b:c]), dict(a=a, b=b, c=c), -1)
    ctx.extra['small_slice_sweep'] = sweep
    ctx.extra['small_slice_sweep_exhaustive'] = ctx.tier == 'thorough'

    res = ctx.run_cases(HEADER, items, shard=max(60, len(items) // 32 + 1))
    if res is None:
        return
    for r, m in zip(res, meta):
        corr, mon = r % 1000, r // 1000
        if m.get('run'):
            if r:
                ctx.mismatch(f'pipeline run: composed model vs implementation (code {r})', m['inp'], impl=m['impl'])
            continue
        if mon:
            ctx.fail(f'C01_ok clauses {mon}', m['inp'], impl=m['impl'], note='bit mask: 1 start None<->None, 2 start advance, 4 rate/step, '
                     '8 stop=start+len/rate, 16 contains, 32 dt/time_length')
        if corr:
            ctx.mismatch(f'ledger step: model vs implementation (code {corr})', m['inp'], impl=m['impl'])
