(* Proofs/FoldHalf.v -- the closing step of day_frac (Model/Phase2.fold_half): a fraction left beyond +-1/2 by the last rounding is folded
   back by one whole cycle.  Both updates are EXACT (count +- 1 within 2^53; fraction -+ 1 by Sterbenz), so the denoted number is unchanged
   and the fraction ends in [-1/2, 1/2] exactly. *)
From Coq Require Import ZArith Reals Psatz Floats.
From Flocq Require Import Core BinarySingleNaN PrimFloat Sterbenz.
From PB Require Import Proofs.TwoSumExact Model.Phase2 Proofs.Floor Proofs.DayFrac.
Open Scope R_scope.

Notation fexp := (FLT_exp (-1074) 53).
Notation rnd := (round radix2 fexp ZnearestE).

Lemma R_mone : R_of (- 1)%float = -1 /\ fin (- 1)%float.
Proof. unfold R_of, fin. split; [|reflexivity]. unfold Prim2B. cbn. unfold B2R, SF2B; cbn. unfold F2R; cbn. lra. Qed.
Lemma R_mhalf : R_of (- 0.5)%float = - / 2 /\ fin (- 0.5)%float.
Proof. unfold R_of, fin. split; [|reflexivity]. unfold Prim2B. cbn. unfold B2R, SF2B; cbn. unfold F2R; cbn. lra. Qed.

Lemma half_slack x : x <= / 2 -> x <= / 2 + bpow radix2 (-50).
Proof. intros H. pose proof (bpow_ge_0 radix2 (-50)). lra. Qed.

Lemma lt_1024 z : Rabs z <= bpow radix2 54 -> Rabs z < bpow radix2 1024.
Proof. intros H. apply Rle_lt_trans with (1:=H). apply bpow_lt. lia. Qed.

Lemma format_sub_one x : generic_format radix2 fexp x -> / 2 <= x <= 2 -> generic_format radix2 fexp (x - 1).
Proof.
  intros Fx Hx. apply sterbenz; [apply FLT_exp_valid; red; lia|apply FLT_exp_monotone|exact Fx| |lra].
  replace 1 with (IZR 1) by reflexivity. apply format_IZR. simpl. lia.
Qed.

Theorem fold_half_sound (d f : PrimFloat.float) (k : Z) :
  fin d -> fin f -> R_of d = IZR k -> (Z.abs k <= 2 ^ 53 - 1)%Z -> Rabs (R_of f) <= / 2 + bpow radix2 (-50) ->
  let '(d', f') := fold_half d f in
  fin d' /\ fin f' /\ (exists k' : Z, R_of d' = IZR k' /\ (Z.abs (k' - k) <= 1)%Z) /\
  R_of d' + R_of f' = R_of d + R_of f /\ Rabs (R_of f') <= / 2.
Proof.
  intros Fd Ff Ed Hk Hf. unfold fold_half.
  destruct R_half as [Eh Fh]. destruct R_mhalf as [Emh Fmh]. destruct R_one as [E1 F1]. destruct R_mone as [Em1 Fm1].
  destruct R_zero as [E0 F0].
  assert (P50 : bpow radix2 (-50) <= / 1024).
  { apply Rle_trans with (bpow radix2 (-10)); [apply bpow_le; lia|]. simpl. lra. }
  apply Rabs_le_inv in Hf.
  assert (B54 : 4 <= bpow radix2 54).
  { apply Rle_trans with (bpow radix2 2); [simpl; lra|apply bpow_le; lia]. }
  assert (Kb : Rabs (IZR k) <= bpow radix2 53).
  { rewrite <- abs_IZR. change (bpow radix2 53) with (IZR (2 ^ 53)). apply IZR_le. lia. }
  assert (B5354 : bpow radix2 53 + 1 <= bpow radix2 54).
  { change 54%Z with (53 + 1)%Z. rewrite bpow_S. assert (1 <= bpow radix2 53) by (change 1 with (bpow radix2 0); apply bpow_le; lia). lra. }
  (* an integer count +- 1 / + 0 is exact *)
  assert (Hcount : forall (e : PrimFloat.float) (j : Z), fin e -> R_of e = IZR j -> (Z.abs j <= 1)%Z ->
            R_of (d + e)%float = IZR (k + j) /\ fin (d + e)%float).
  { intros e j Fe Ee Hj.
    assert (Hr : rnd (R_of d + R_of e) = IZR (k + j)).
    { rewrite Ed, Ee, <- plus_IZR. apply rnd_IZR. lia. }
    destruct (add_R d e Fd Fe) as [Ea Fa].
    { rewrite Hr. apply lt_1024. rewrite <- abs_IZR. apply Rle_trans with (IZR (2 ^ 53)); [apply IZR_le; lia|].
      change (IZR (2 ^ 53)) with (bpow radix2 53). lra. }
    split; [rewrite Ea; exact Hr|exact Fa]. }
  rewrite (ltb_R _ _ Fh Ff), Eh. destruct (Rlt_bool_spec (/ 2) (R_of f)) as [Hgt|Hle].
  - (* frac > 1/2: one cycle goes to the count *)
    destruct (Hcount 1%float 1%Z F1 E1 ltac:(lia)) as [Ea Fa].
    assert (Fmt : generic_format radix2 fexp (R_of f - 1)) by (apply format_sub_one; [apply format_R_of|lra]).
    destruct (sub_R f 1%float Ff F1) as [Es Fs].
    { rewrite E1, round_generic by (try apply valid_rnd_N; exact Fmt). apply lt_1024. apply Rabs_le. lra. }
    rewrite E1, round_generic in Es by (try apply valid_rnd_N; exact Fmt).
    split; [exact Fa|]. split; [exact Fs|]. split; [exists (k + 1)%Z; split; [exact Ea|lia]|].
    split; [rewrite Ea, Es, Ed, plus_IZR; simpl; lra|rewrite Es; apply Rabs_le; lra].
  - rewrite (ltb_R _ _ Ff Fmh), Emh. destruct (Rlt_bool_spec (R_of f) (- / 2)) as [Hlt|Hge].
    + (* frac < -1/2: one cycle comes from the count *)
      destruct (Hcount (- 1)%float (-1)%Z Fm1 Em1 ltac:(lia)) as [Ea Fa].
      assert (Fmt : generic_format radix2 fexp (R_of f - -1)).
      { replace (R_of f - -1) with (- (- R_of f - 1)) by ring. apply generic_format_opp. apply format_sub_one; [apply generic_format_opp, format_R_of|lra]. }
      destruct (sub_R f (- 1)%float Ff Fm1) as [Es Fs].
      { rewrite Em1, round_generic by (try apply valid_rnd_N; exact Fmt). apply lt_1024. apply Rabs_le. lra. }
      rewrite Em1, round_generic in Es by (try apply valid_rnd_N; exact Fmt).
      split; [exact Fa|]. split; [exact Fs|]. split; [exists (k + -1)%Z; split; [exact Ea|lia]|].
      split; [rewrite Ea, Es, Ed, plus_IZR; simpl; lra|rewrite Es; apply Rabs_le; lra].
    + (* already in [-1/2, 1/2] *)
      destruct (Hcount 0%float 0%Z F0 E0 ltac:(lia)) as [Ea Fa].
      destruct (sub_R f 0%float Ff F0) as [Es Fs].
      { rewrite E0, Rminus_0_r, round_generic by (try apply valid_rnd_N; apply format_R_of). apply lt_1024. apply Rabs_le. lra. }
      rewrite E0, Rminus_0_r, round_generic in Es by (try apply valid_rnd_N; apply format_R_of).
      split; [exact Fa|]. split; [exact Fs|]. split; [exists (k + 0)%Z; split; [exact Ea|lia]|].
      split; [rewrite Ea, Es, Ed, plus_IZR; simpl; lra|rewrite Es; apply Rabs_le; lra].
Qed.

(* WITHOUT the fold the computation is not normalised: the tail of day_frac as it stood before repair D25, on the pair that
   (-3.5000000000000004) / 7 hands it, returns count 0 and a fraction below -1/2 - while the folded tail returns (-1, 1/2 - 2^-53 + ...).
   (Evaluated by the kernel on primitive floats; replayed on the implementation this was the finding.) *)
Lemma df_tail0_refuted :
  let s := (-0x1.0000000000001p-1)%float in let e := 0x1.b6db6db6db6dbp-55%float in
  (snd (df_tail0 s e) <? - 0.5)%float = true /\ (fst (df_tail0 s e) =? 0)%float = true /\
  (- 0.5 <=? snd (df_tail s e))%float = true /\ (snd (df_tail s e) <=? 0.5)%float = true /\ (fst (df_tail s e) =? - 1)%float = true.
Proof. vm_compute. repeat split; reflexivity. Qed.
