(* Proofs/PolycoProofs.v -- C08: prediction = tempo formula; derivatives; recentred polynomial; entry selection; interval merge. *)
From Coq Require Import ZArith QArith Qround Qabs Qminmax Lia Lqa List Bool.
From PB Require Import Model.Polyco.
Import ListNotations.
Open Scope Q_scope.

(* ---------- evaluation respects Qeq ---------- *)
Lemma peval_comp cs x y : x == y -> peval cs x == peval cs y.
Proof. intros E. induction cs as [|c r IH]; cbn [peval]; [reflexivity|]. rewrite IH, E. reflexivity. Qed.

(* ---------- convert of domain [-60, 60]: seconds -> minutes ---------- *)
Lemma peval_conv cs : forall k x, ~ k == 0 -> peval (conv k cs) x * k == peval cs (x / 60).
Proof.
  induction cs as [|c cs IH]; intros k x Hk; cbn [conv peval].
  - ring.
  - assert (H60 : ~ k * 60 == 0) by (intro E; apply Hk; lra).
    specialize (IH (k * 60) x H60).
    setoid_replace ((c / k + x * peval (conv (k * 60) cs) x) * k) with (c + (x / 60) * (peval (conv (k * 60) cs) x * (k * 60))) by (field; exact Hk).
    rewrite IH. ring.
Qed.

(* the phase of an entry at dt seconds from TMID is the tempo formula at DT = dt/60 minutes *)
Theorem entry_is_tempo (r : raw_entry) (e : entry) (c0 c1 : Q) (rest : list Q) (dt : Q) :
  pad2 (r_coeffs r) = c0 :: c1 :: rest -> mk_entry r = Some e ->
  inject_Z (e_rphase e) + peval (e_poly e) dt ==
  tempo (inject_Z (r_rint r) + r_rfrac r) (r_f0 r) (c0 :: c1 :: rest) (dt / 60).
Proof.
  intros Hc. unfold mk_entry. rewrite Hc. intros H. injection H as <-. cbn [e_rphase e_poly]. unfold tempo.
  assert (H1 : ~ 1 == 0) by discriminate.
  pose proof (peval_conv ((c0 + r_rfrac r) :: (c1 + r_f0 r * 60) :: rest) 1 dt H1) as H.
  rewrite Qmult_1_r in H. rewrite H. cbn [peval]. ring.
Qed.
Theorem entry_needs_a_coeff r : r_coeffs r = [] <-> mk_entry r = None.
Proof. unfold mk_entry. destruct (r_coeffs r) as [|a [|b l]]; cbn [pad2]; split; intros H; try reflexivity; try discriminate. Qed.
(* a single coefficient behaves as (COEFF(1), 0): the F0 term is kept *)
Lemma pad2_single c : pad2 [c] = [c; 0]. Proof. reflexivity. Qed.
Lemma pad2_two_or_more a b l : pad2 (a :: b :: l) = a :: b :: l. Proof. reflexivity. Qed.

(* ---------- derivatives ---------- *)
Lemma deriv_from_eval cs : forall k x, peval (deriv_from k cs) x == k * peval cs x + x * peval (deriv cs) x.
Proof.
  induction cs as [|a r IH]; intros k x.
  - cbn [deriv_from deriv peval]. ring.
  - change (deriv (a :: r)) with (deriv_from 1 r). cbn [deriv_from peval].
    rewrite (IH (k + 1) x), (IH 1 x). ring.
Qed.
(* product rule for the Horner form: (c + x p)' = p + x p' *)
Lemma deriv_cons c cs x : peval (deriv (c :: cs)) x == peval cs x + x * peval (deriv cs) x.
Proof. cbn [deriv]. rewrite deriv_from_eval. ring. Qed.

(* [deriv] is THE derivative: p(x + h) = p(x) + h p'(x) + h^2 R(x, h) with R a polynomial expression -- stated through the
   exact Taylor shift below: coefficient 1 of p(. + x) is p'(x) *)
Lemma peval_padd a : forall b x, peval (padd a b) x == peval a x + peval b x.
Proof. induction a as [|u a IH]; intros b x; cbn [padd peval]; [ring|]. destruct b as [|v b]; cbn [peval]; [ring|]. rewrite IH, Qred_correct. ring. Qed.
Lemma peval_pscal d a x : peval (pscal d a) x == d * peval a x.
Proof. unfold pscal. induction a as [|u a IH]; cbn [map peval]; [ring|]. rewrite IH. ring. Qed.
(* the recentred polynomial evaluates to the original at the shifted argument *)
Theorem peval_pshift cs : forall d x, peval (pshift cs d) x == peval cs (x + d).
Proof.
  induction cs as [|c r IH]; intros d x; cbn [pshift peval]; [reflexivity|].
  rewrite !peval_padd, peval_pscal. cbn [peval]. rewrite IH. ring.
Qed.
Definition coeff (cs : list Q) (i : nat) : Q := nth i cs 0.
Lemma coeff0_pshift cs d : coeff (pshift cs d) 0 == peval cs d.
Proof. transitivity (peval (pshift cs d) 0).
  - unfold coeff. destruct (pshift cs d); cbn [nth peval]; ring.
  - rewrite peval_pshift. apply peval_comp. ring. Qed.
Lemma coeff_padd a : forall b i, coeff (padd a b) i == coeff a i + coeff b i.
Proof. unfold coeff. induction a as [|u a IH]; intros b i; cbn [padd].
  - destruct i; cbn [nth]; ring.
  - destruct b as [|v b]; [destruct i; cbn [nth]; ring|]. destruct i; cbn [nth]; [rewrite Qred_correct; ring|apply IH]. Qed.
Lemma coeff_pscal d a i : coeff (pscal d a) i == d * coeff a i.
Proof. unfold coeff, pscal. revert i. induction a as [|u a IH]; intros i; cbn [map]; destruct i; cbn [nth]; try ring. apply IH. Qed.
(* first Taylor coefficient at d is the formal derivative at d *)
Theorem coeff1_pshift cs : forall d, coeff (pshift cs d) 1 == peval (deriv cs) d.
Proof.
  induction cs as [|c r IH]; intros d; cbn [pshift]; [reflexivity|].
  rewrite !coeff_padd, coeff_pscal. rewrite deriv_cons. rewrite IH.
  assert (E0 : coeff (0 :: pshift r d) 1 == peval r d) by (unfold coeff; cbn [nth]; apply (coeff0_pshift r d)).
  rewrite E0. unfold coeff. cbn [nth]. ring.
Qed.

(* phasepol: reference phase + recentred polynomial at x = prediction at t0 + x (same entry) *)
Theorem phasepol_value (e : entry) (dt x : Q) :
  let a := Qfloor (peval (e_poly e) dt) in
  inject_Z (e_rphase e + a) + peval (padd [- inject_Z a] (pshift (e_poly e) dt)) x ==
  inject_Z (e_rphase e) + peval (e_poly e) (dt + x).
Proof.
  intros a. rewrite peval_padd, peval_pshift. cbn [peval]. rewrite inject_Z_plus.
  rewrite (peval_comp (e_poly e) (x + dt) (dt + x)) by ring. ring.
Qed.
(* the recentred polynomial starts in [0, 1) at its reference time *)
Theorem phasepol_fraction (e : entry) (dt : Q) :
  let a := Qfloor (peval (e_poly e) dt) in
  0 <= peval (padd [- inject_Z a] (pshift (e_poly e) dt)) 0 < 1.
Proof.
  intros a. rewrite peval_padd, peval_pshift. cbn [peval].
  rewrite (peval_comp (e_poly e) (0 + dt) dt) by ring.
  pose proof (Qfloor_le (peval (e_poly e) dt)) as L. pose proof (Qlt_floor (peval (e_poly e) dt)) as U.
  fold a in L, U. rewrite inject_Z_plus in U. change (inject_Z 1) with 1 in U. split; lra.
Qed.

(* ---------- entry selection ---------- *)
Lemma Qle_bool_false a b : Qle_bool a b = false <-> b < a.
Proof. split; intros H.
  - apply Qnot_le_lt. intro C. apply Qle_bool_iff in C. congruence.
  - destruct (Qle_bool a b) eqn:E; [|reflexivity]. apply Qle_bool_iff in E. lra. Qed.

(* searchsorted returns the first entry whose span end is >= t *)
Lemma searchsorted_spec ends t : forall i, searchsorted ends t = i ->
  (forall j x, (j < i)%nat -> nth_error ends j = Some x -> x < t) /\
  (forall x, nth_error ends i = Some x -> t <= x).
Proof.
  induction ends as [|y r IH]; intros i H; cbn [searchsorted] in H.
  - subst. split; [intros j x Hj; lia|intros x Hx; discriminate].
  - destruct (Qle_bool t y) eqn:E.
    + subst. split; [intros j x Hj; lia|]. intros x Hx. injection Hx as <-. apply Qle_bool_iff. exact E.
    + destruct i as [|i]; [discriminate|]. injection H as H. destruct (IH i H) as [A B]. split.
      * intros j x Hj Hx. destruct j as [|j]; [injection Hx as <-; apply Qle_bool_false; exact E|]. apply (A j x); [lia|exact Hx].
      * intros x Hx. apply B. exact Hx.
Qed.

(* entries sorted by TMID with one common span: if t lies in the span of SOME entry, the selected entry's span contains t *)
Inductive sorted_tmid : list entry -> Prop :=
| st_nil : sorted_tmid []
| st_one e : sorted_tmid [e]
| st_cons a b l : e_tmid a <= e_tmid b -> sorted_tmid (b :: l) -> sorted_tmid (a :: b :: l).
Lemma sorted_head a l : sorted_tmid (a :: l) -> forall e, In e l -> e_tmid a <= e_tmid e.
Proof. revert a. induction l as [|b l IH]; intros a H e He; [destruct He|].
  inversion H as [| |a' b' l' Hab Hs]; subst. destruct He as [<-|He]; [exact Hab|].
  apply Qle_trans with (e_tmid b); [exact Hab|]. apply IH; assumption. Qed.
Lemma sorted_tail a l : sorted_tmid (a :: l) -> sorted_tmid l.
Proof. intros H. inversion H; subst; [constructor|assumption]. Qed.

Theorem selection_contains (span : Q) (es : list entry) (t : Q) :
  sorted_tmid es -> (forall e, In e es -> e_span e == span) ->
  (exists e, In e es /\ e_start e <= t <= e_end e) ->
  exists e, nth_error es (searchsorted (map e_end es) t) = Some e /\ e_start e <= t <= e_end e.
Proof.
  induction es as [|a r IH]; intros Hs Hsp [e [He Ht]]; [destruct He|].
  cbn [map searchsorted].
  destruct (Qle_bool t (e_end a)) eqn:E.
  - exists a. split; [reflexivity|]. apply Qle_bool_iff in E. split; [|exact E].
    destruct He as [<-|He]; [apply Ht|].
    pose proof (sorted_head a r Hs e He) as Hm. unfold e_start in *.
    rewrite (Hsp a (or_introl eq_refl)). rewrite (Hsp e (or_intror He)) in Ht. lra.
  - apply Qle_bool_false in E. destruct He as [<-|He]; [lra|].
    destruct (IH (sorted_tail a r Hs) (fun e' H' => Hsp e' (or_intror H')) (ex_intro _ e (conj He Ht))) as [e' [Hn Hc]].
    exists e'. split; [exact Hn|exact Hc].
Qed.

(* ---------- interval merging ---------- *)
Definition inside (s : Q * Q) (i : Q * Q) : Prop := fst i <= fst s /\ snd s <= snd i.
(* pending intervals are in pop order: stops descending, all below the current stop *)
Fixpoint desc (bound : Q) (l : list (Q * Q)) : Prop :=
  match l with [] => True | p :: r => snd p <= bound /\ desc (snd p) r end.
Lemma desc_weaken l : forall b b', b <= b' -> desc b l -> desc b' l.
Proof. destruct l as [|p r]; intros b b' Hb H; cbn [desc] in *; [exact I|]. destruct H as [H1 H2]. split; [lra|exact H2]. Qed.

(* every span handed to the loop ends up inside one output interval *)
Lemma merge_cover eps : forall l start stop acc s,
  desc stop l ->
  (inside s (start, stop) \/ In s l \/ exists i, In i acc /\ inside s i) ->
  exists i, In i (merge eps l start stop acc) /\ inside s i.
Proof.
  induction l as [|[ns ne] r IH]; intros start stop acc s Hd H; cbn [merge].
  - destruct H as [H|[[]|[i [Hi Hs]]]]; [exists (start, stop); split; [left; reflexivity|exact H]|exists i; split; [right; exact Hi|exact Hs]].
  - cbn [desc snd] in Hd. destruct Hd as [Hne Hd].
    destruct (Qle_bool start ne || Qle_bool (Qabs (start - ne)) eps) eqn:M.
    + apply IH; [apply (desc_weaken r ne stop Hne Hd)|].
      destruct H as [H|[[<-|H]|H]].
      * left. unfold inside in *. cbn [fst snd] in *. pose proof (Q.le_min_l start ns). split; lra.
      * left. unfold inside. cbn [fst snd]. pose proof (Q.le_min_r start ns). split; lra.
      * right. left. exact H.
      * right. right. exact H.
    + apply IH; [exact Hd|].
      destruct H as [H|[[<-|H]|[i [Hi Hs]]]].
      * right. right. exists (start, stop). split; [left; reflexivity|exact H].
      * left. unfold inside. cbn [fst snd]. split; lra.
      * right. left. exact H.
      * right. right. exists i. split; [right; exact Hi|exact Hs].
Qed.

(* output intervals (ascending) are more than eps apart: nothing that touches or overlaps within eps is left unmerged *)
Fixpoint sep (eps : Q) (l : list (Q * Q)) : Prop :=
  match l with
  | a :: ((b :: _) as r) => snd a + eps < fst b /\ sep eps r
  | _ => True
  end.
Lemma sep_head_irrelevant eps a a' stop acc : sep eps ((a, stop) :: acc) -> sep eps ((a', stop) :: acc).
Proof. destruct acc as [|b r]; cbn [sep fst snd]; auto. Qed.
Lemma merge_sep eps : 0 <= eps -> forall l start stop acc,
  sep eps ((start, stop) :: acc) -> sep eps (merge eps l start stop acc).
Proof.
  intros He. induction l as [|[ns ne] r IH]; intros start stop acc H; cbn [merge]; [exact H|].
  destruct (Qle_bool start ne || Qle_bool (Qabs (start - ne)) eps) eqn:M.
  - apply IH. apply (sep_head_irrelevant eps start _ stop acc H).
  - apply IH. apply orb_false_iff in M. destruct M as [M1 M2].
    apply Qle_bool_false in M1. apply Qle_bool_false in M2.
    cbn [sep fst snd]. split; [|exact H].
    rewrite Qabs_pos in M2 by lra. lra.
Qed.

(* the endpoints of every output interval are endpoints of spans *)
Lemma merge_endpoints eps : forall l start stop acc (S E : Q -> Prop),
  (forall x y, x == y -> S x -> S y) ->
  S start -> E stop -> (forall p, In p l -> S (fst p) /\ E (snd p)) -> (forall i, In i acc -> S (fst i) /\ E (snd i)) ->
  forall i, In i (merge eps l start stop acc) -> S (fst i) /\ E (snd i).
Proof.
  induction l as [|[ns ne] r IH]; intros start stop acc S E Scomp Hs He Hl Ha i Hi; cbn [merge] in Hi.
  - destruct Hi as [<-|Hi]; [split; assumption|apply Ha; exact Hi].
  - destruct (Qle_bool start ne || Qle_bool (Qabs (start - ne)) eps).
    + apply (IH (Qmin start ns) stop acc S E Scomp); try assumption.
      * destruct (Q.min_spec start ns) as [[_ Em]|[_ Em]]; [apply (Scomp start); [symmetry; exact Em|exact Hs]|].
        apply (Scomp ns); [symmetry; exact Em|]. apply (Hl (ns, ne)). left. reflexivity.
      * intros p Hp. apply Hl. right. exact Hp.
    + apply (IH ns ne ((start, stop) :: acc) S E Scomp); try assumption.
      * apply (Hl (ns, ne)). left. reflexivity.
      * apply (Hl (ns, ne)). left. reflexivity.
      * intros p Hp. apply Hl. right. exact Hp.
      * intros j [<-|Hj]; [split; assumption|apply Ha; exact Hj].
Qed.

(* ---------- sort_by: stable insertion sort; result is a sorted rearrangement ---------- *)
Fixpoint asc {A} (key : A -> Q) (l : list A) : Prop :=
  match l with a :: ((b :: _) as r) => key a <= key b /\ asc key r | _ => True end.
Lemma insert_in {A} (key : A -> Q) x l y : In y (insert_by key x l) <-> y = x \/ In y l.
Proof. induction l as [|z r IH]; cbn [insert_by]; [cbn; intuition congruence|].
  destruct (Qle_bool (key z) (key x)); cbn [In]; [rewrite IH|]; intuition congruence. Qed.
Lemma insert_asc {A} (key : A -> Q) x l : asc key l -> asc key (insert_by key x l).
Proof.
  induction l as [|z r IH]; intros H; cbn [insert_by]; [exact I|].
  destruct (Qle_bool (key z) (key x)) eqn:E.
  - apply Qle_bool_iff in E. destruct r as [|w r'].
    + cbn [insert_by asc]. split; [exact E|exact I].
    + cbn [asc] in H. destruct H as [H1 H2]. specialize (IH H2). cbn [insert_by] in *.
      destruct (Qle_bool (key w) (key x)); cbn [asc]; [split; [exact H1|exact IH]|split; [exact E|exact IH]].
  - apply Qle_bool_false in E. cbn [asc]. split; [lra|exact H].
Qed.
Lemma sort_by_in {A} (key : A -> Q) l y : In y (sort_by key l) <-> In y l.
Proof.
  unfold sort_by. assert (G : forall l acc, In y (fold_left (fun acc x => insert_by key x acc) l acc) <-> In y l \/ In y acc).
  { induction l0 as [|x r IH]; intros acc; cbn [fold_left]; [cbn; tauto|]. rewrite IH, insert_in. cbn [In]. intuition (subst; auto). }
  rewrite G. cbn. tauto. Qed.
Lemma sort_by_asc {A} (key : A -> Q) l : asc key (sort_by key l).
Proof.
  unfold sort_by. assert (G : forall l acc, asc key acc -> asc key (fold_left (fun acc x => insert_by key x acc) l acc)).
  { induction l0 as [|x r IH]; intros acc H; cbn [fold_left]; [exact H|]. apply IH. apply insert_asc. exact H. }
  apply G. exact I. Qed.
Lemma asc_app_last {A} (key : A -> Q) l x : asc key (l ++ [x]) -> forall y, In y l -> key y <= key x.
Proof. induction l as [|a r IH]; intros H y Hy; [destruct Hy|].
  destruct r as [|b r']; cbn [app] in *.
  - destruct Hy as [<-|[]]. apply H.
  - cbn [asc] in H. destruct H as [H1 H2]. destruct Hy as [<-|Hy]; [|apply IH; assumption].
    apply Qle_trans with (key b); [exact H1|]. apply IH; [exact H2|left; reflexivity]. Qed.
Lemma rev_asc_desc l : asc snd l -> forall p r, rev l = p :: r -> desc (snd p) r.
Proof.
  induction l as [|a l IH] using rev_ind; intros H p r E; [discriminate|].
  rewrite rev_app_distr in E. cbn [rev app] in E. injection E as <- <-.
  destruct (rev l) as [|q r'] eqn:R; [exact I|]. cbn [desc]. split.
  - assert (In q l) by (apply in_rev; rewrite R; left; reflexivity). apply (asc_app_last snd l a H q H0).
  - apply IH; [|reflexivity]. clear -H. induction l as [|b [|c l'] IH]; cbn [app asc] in *; auto. destruct H as [H1 H2]. split; [exact H1|apply IH; exact H2].
Qed.

(* the validity intervals: every span is inside one, they are > eps apart, their endpoints are span endpoints *)
Theorem intervals_cover eps es e : In e es -> exists i, In i (intervals eps es) /\ inside (e_start e, e_end e) i.
Proof.
  intros He. unfold intervals.
  set (sp := map (fun e => (e_start e, e_end e)) es).
  assert (Hin : In (e_start e, e_end e) (rev (sort_by snd sp))).
  { apply -> in_rev. apply sort_by_in. unfold sp. apply in_map_iff. exists e. split; [reflexivity|exact He]. }
  pose proof (rev_asc_desc (sort_by snd sp) (sort_by_asc snd sp)) as Hd.
  destruct (rev (sort_by snd sp)) as [|[s0 e0] r]; [destruct Hin|].
  apply merge_cover; [apply (Hd (s0, e0) r eq_refl)|].
  destruct Hin as [E|Hin]; [left; rewrite <- E; unfold inside; cbn [fst snd]; split; lra|right; left; exact Hin].
Qed.
Theorem intervals_separated eps es : 0 <= eps -> sep eps (intervals eps es).
Proof. intros He. unfold intervals. destruct (rev _) as [|[s0 e0] r]; [exact I|]. apply merge_sep; [exact He|exact I]. Qed.
Theorem intervals_endpoints eps es i : In i (intervals eps es) ->
  (exists e, In e es /\ fst i == e_start e) /\ (exists e, In e es /\ snd i == e_end e).
Proof.
  unfold intervals. set (sp := map (fun e => (e_start e, e_end e)) es).
  assert (Hall : forall p, In p (rev (sort_by snd sp)) -> (exists e, In e es /\ fst p == e_start e) /\ (exists e, In e es /\ snd p == e_end e)).
  { intros p Hp. apply in_rev in Hp. apply sort_by_in in Hp. unfold sp in Hp. apply in_map_iff in Hp. destruct Hp as [e [<- He]].
    split; exists e; (split; [exact He|reflexivity]). }
  destruct (rev (sort_by snd sp)) as [|[s0 e0] r]; [intros []|].
  intros Hi.
  apply (merge_endpoints eps r s0 e0 [] (fun x => exists e, In e es /\ x == e_start e) (fun x => exists e, In e es /\ x == e_end e)); try assumption.
  - intros x y E [e [He Hx]]. exists e. split; [exact He|]. rewrite <- E. exact Hx.
  - apply (Hall (s0, e0)). left. reflexivity.
  - apply (Hall (s0, e0)). left. reflexivity.
  - intros p Hp. apply Hall. right. exact Hp.
  - intros j [].
Qed.

(* outside every interval the predictor refuses (ValueError) *)
Theorem outside_refused eps es t : in_intervals (intervals eps es) t = false -> predict eps es t = None /\ (forall n, f0 eps es t n = None) /\ phasepol eps es t = None.
Proof. intros H. unfold predict, f0, phasepol, index_dt. rewrite H. repeat split. Qed.
