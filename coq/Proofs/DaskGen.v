(* Proofs/DaskGen.v -- C09: the pinned Dask glue (Gen/GenDask.v, re-read from the source on every run by T15) is what the chunk model assumes. *)
From PB Require Import Gen.GenDask.
Lemma dask_glue_generated :
  gen_signal_transform_is_map_blocks = true /\ gen_compute_changes_only_the_container = true /\
  gen_persist_changes_only_the_container = true /\ gen_to_dask_array_changes_only_the_container = true /\
  gen_rechunk_changes_only_the_container = true.
Proof. repeat split; reflexivity. Qed.
