(* Proofs/FloorDivSpec.v -- the model of numpy's float floor_divide (Model/PhaseDivmod.np_divmod: exact fmod, quotient, Python-sign
   adjustment, snap to the nearest integer) returns the EXACT floor of the quotient of two doubles, for divisors in [2^-10, 2^10]
   and |a| <= 2^40: the hypothesis fdiv_spec of the divmod floor theorem holds for the model. *)
From Coq Require Import ZArith Reals Psatz Floats Bool Lia.
From Flocq Require Import Core BinarySingleNaN PrimFloat.
From PB Require Import Proofs.TwoSumExact Model.Phase2 Model.PhaseDivmod Proofs.Floor Proofs.DayFrac Proofs.DayFrac3 Proofs.DayFracTail Proofs.DayFracFold Proofs.PhaseCmp Proofs.PhaseCmpAll
  Proofs.PhaseMul Proofs.DivChain Proofs.PhaseDiv Proofs.FmodSpec.
Open Scope R_scope.

Lemma floor_bounds x : IZR (Zfloor x) <= x < IZR (Zfloor x) + 1.
Proof. split; [apply Zfloor_lb|apply Zfloor_ub]. Qed.
Lemma IZR_abs_ge1' (z : Z) : z <> 0%Z -> 1 <= Rabs (IZR z).
Proof. intros H. rewrite <- abs_IZR. apply (IZR_le 1). lia. Qed.

Lemma copysign0_R x : R_of (copysign0 x) = 0 /\ fin (copysign0 x).
Proof. unfold copysign0. apply fzero_signed_R. Qed.

Lemma floor_unique (x : R) (T : Z) : IZR T <= x < IZR T + 1 -> Zfloor x = T.
Proof. intros [H1 H2]. apply Zfloor_imp. rewrite plus_IZR. split; assumption. Qed.

Theorem np_floor_divide_floor (a b : PrimFloat.float) : fin a -> fin b ->
  bpow radix2 (-10) <= R_of b <= bpow radix2 10 -> Rabs (R_of a) <= bpow radix2 40 ->
  fin (np_floor_divide a b) /\ R_of (np_floor_divide a b) = IZR (Zfloor (R_of a / R_of b)).
Proof.
  intros Fa Fb Bb Ba.
  assert (P10 : bpow radix2 10 = 1024) by (simpl; lra). assert (Pm10 : bpow radix2 (-10) = / 1024) by (simpl; lra).
  assert (P40 : bpow radix2 40 = 1099511627776) by (simpl; lra).
  set (B := R_of b) in *. set (A := R_of a) in *.
  assert (Bpos : 0 < B) by lra. assert (Bn0 : B <> 0) by lra.
  destruct (fmod_spec a b Fa Fb Bn0) as (t & Fmd & Emd & Lmd & Sp & Sn). fold A B in Emd, Lmd, Sp, Sn.
  set (md := fmod_f a b) in *. set (M := R_of md) in *. rewrite (Rabs_pos_eq B) in Lmd by lra.
  unfold np_floor_divide, np_divmod. fold md.
  destruct R_zero as [E0 F0]. destruct R_one as [E1 F1].
  rewrite (eqb_R b 0%float Fb F0), E0. fold B. rewrite Req_bool_false by lra.
  (* a - md = t b exactly *)
  assert (ETB : A - M = IZR t * B) by (rewrite Emd; ring).
  assert (Btb : Rabs (IZR t * B) <= bpow radix2 40 + 1024).
  { rewrite <- ETB. apply Rle_trans with (1:=Rabs_sub_le _ _). lra. }
  assert (Bt : Rabs (IZR t) <= 1024 * (bpow radix2 40 + 1024)).
  { rewrite Rabs_mult, (Rabs_pos_eq B) in Btb by lra. pose proof (Rabs_pos (IZR t)). nra. }
  destruct (sub_R a md Fa Fmd) as [Es1 Fs1].
  { fold A M. rewrite ETB. apply Rle_lt_trans with (bpow radix2 42); [apply rnd_bound; [lia|]|apply bpow_lt; lia].
    apply Rle_trans with (1:=Btb). rewrite P40. simpl. lra. }
  fold A M in Es1. rewrite ETB in Es1. set (s1 := PrimFloat.sub a md) in *.
  assert (Hs1 : Rabs (R_of s1 - IZR t * B) <= u53 * Rabs (IZR t * B)).
  { rewrite Es1. apply rel_err'. destruct (Z.eq_dec t 0) as [->|N]; [left; simpl; ring|right].
    rewrite Rabs_mult, (Rabs_pos_eq B) by lra. apply Rle_trans with (1 * bpow radix2 (-10)).
    - rewrite Rmult_1_l. apply bpow_le. lia.
    - pose proof (IZR_abs_ge1' t N). pose proof (bpow_gt_0 radix2 (-10)). nra. }
  assert (Bs1 : Rabs (R_of s1) <= 2 * (bpow radix2 40 + 1024)).
  { replace (R_of s1) with ((R_of s1 - IZR t * B) + IZR t * B) by ring. apply Rle_trans with (1:=Rabs_triang _ _).
    unfold u53 in Hs1. pose proof (Rabs_pos (IZR t * B)). lra. }
  assert (Bq : Rabs (R_of s1 / B) <= bpow radix2 52).
  { unfold Rdiv. rewrite Rabs_mult, Rabs_inv, (Rabs_pos_eq B) by lra.
    assert (/ B <= 1024) by (rewrite <- (Rinv_inv 1024); apply Rinv_le; lra).
    assert (0 < / B) by (apply Rinv_0_lt_compat; lra). pose proof (Rabs_pos (R_of s1)).
    apply Rle_trans with (2 * (bpow radix2 40 + 1024) * 1024); [nra|]. rewrite P40. simpl. lra. }
  destruct (div_R s1 b Fs1 Fb Bn0) as [Edv0 Fdv0].
  { apply Rle_lt_trans with (bpow radix2 52); [apply rnd_bound; [lia|exact Bq]|apply bpow_lt; lia]. }
  fold B in Edv0. set (dv0 := PrimFloat.div s1 b) in *.
  assert (Hdv0 : Rabs (R_of dv0 - IZR t) <= / 4 + / 1024).
  { destruct (Z.eq_dec t 0) as [T0|N].
    - subst t. simpl in Es1. rewrite Rmult_0_l, round_0 in Es1 by typeclasses eauto.
      rewrite Edv0, Es1. unfold Rdiv. rewrite Rmult_0_l, round_0 by typeclasses eauto. simpl. rewrite Rminus_0_r, Rabs_R0. lra.
    - assert (Q : Rabs (R_of s1 / B - IZR t) <= u53 * Rabs (IZR t)).
      { replace (R_of s1 / B - IZR t) with ((R_of s1 - IZR t * B) / B) by (field; lra).
        unfold Rdiv. rewrite Rabs_mult, Rabs_inv, (Rabs_pos_eq B) by lra.
        apply Rmult_le_reg_r with B; [lra|]. rewrite Rmult_assoc, Rinv_l, Rmult_1_r by lra.
        apply Rle_trans with (1:=Hs1). rewrite Rabs_mult, (Rabs_pos_eq B) by lra. lra. }
      assert (N1 : 1 <= Rabs (IZR t)) by (apply IZR_abs_ge1'; exact N).
      assert (Nq : bpow radix2 (-1022) <= Rabs (R_of s1 / B)).
      { apply Rle_trans with (/ 2); [apply Rle_trans with (bpow radix2 (-1)); [apply bpow_le; lia|simpl; lra]|].
        unfold u53 in Q. apply Rabs_le_inv in Q. unfold Rabs in N1 |- *. destruct (Rcase_abs (IZR t)); destruct (Rcase_abs (R_of s1 / B)); lra. }
      pose proof (rel_err' (R_of s1 / B) (or_intror Nq)) as Q2. rewrite <- Edv0 in Q2.
      assert (Bq' : Rabs (R_of s1 / B) <= Rabs (IZR t) * (1 + u53)).
      { replace (R_of s1 / B) with (IZR t + (R_of s1 / B - IZR t)) by ring. apply Rle_trans with (1:=Rabs_triang _ _). lra. }
      replace (R_of dv0 - IZR t) with ((R_of dv0 - R_of s1 / B) + (R_of s1 / B - IZR t)) by ring.
      apply Rle_trans with (1:=Rabs_triang _ _).
      unfold u53 in *. rewrite P40 in Bt. pose proof (Rabs_pos (IZR t)). nra. }
  (* the target integer and the quotient the routine snaps *)
  assert (Main : forall (dv : PrimFloat.float) (T : Z), fin dv -> Rabs (R_of dv - IZR T) <= / 4 + / 8 + / 512 -> Rabs (IZR T) <= bpow radix2 52 ->
    let fd := if negb (PrimFloat.eqb dv 0) then (let f := ffloor dv in if PrimFloat.ltb 0.5 (PrimFloat.sub dv f) then PrimFloat.add f 1 else f)
              else copysign0 (PrimFloat.div a b) in
    fin fd /\ R_of fd = IZR T).
  { intros dv T Fdv Hdv BT fd. subst fd.
    rewrite (eqb_R dv 0%float Fdv F0), E0.
    destruct (Req_bool_spec (R_of dv) 0) as [Z0|Z0]; cbn [negb].
    - destruct (copysign0_R (PrimFloat.div a b)) as [Ec Fc]. split; [exact Fc|]. rewrite Ec.
      rewrite Z0 in Hdv. rewrite Rminus_0_l, Rabs_Ropp, <- abs_IZR in Hdv.
      assert (Z.abs T = 0)%Z; [|assert (T = 0%Z) by lia; subst; reflexivity].
      assert (IZR (Z.abs T) < 1) by lra. apply lt_IZR in H. lia.
    - destruct (ffloor_spec dv Fdv) as [Ef Ff]. set (f := ffloor dv) in *.
      pose proof (floor_bounds (R_of dv)) as HF. set (G := Zfloor (R_of dv)) in *.
      apply Rabs_le_inv in Hdv.
      assert (HG : G = T \/ G = (T - 1)%Z).
      { assert (IZR G < IZR T + 1) by lra. assert (IZR T - 2 < IZR G) by lra.
        rewrite <- plus_IZR in H. rewrite <- minus_IZR in H0. apply lt_IZR in H. apply lt_IZR in H0. lia. }
      assert (Half : R_of 0.5%float = / 2 /\ fin 0.5%float).
      { unfold R_of, fin. split; [|reflexivity]. unfold Prim2B. cbn. unfold B2R, SF2B; cbn. unfold F2R; cbn. lra. }
      destruct Half as [Eh Fh].
      assert (Bx : Rabs (R_of dv - R_of f) < bpow radix2 0) by (rewrite Ef; simpl; apply Rabs_lt; lra).
      destruct (sub_R dv f Fdv Ff) as [Ex Fx].
      { apply Rle_lt_trans with (bpow radix2 0); [apply rnd_bound; [lia|apply Rlt_le; exact Bx]|apply bpow_lt; lia]. }
      pose proof (err_lt (R_of dv - R_of f) 0 ltac:(lia) Bx) as Hx. rewrite <- Ex in Hx. change (0 - 54)%Z with (-54)%Z in Hx.
      assert (P54 : 0 < bpow radix2 (-54) <= / 1024) by (split; [apply bpow_gt_0|apply Rle_trans with (bpow radix2 (-10)); [apply bpow_le; lia|simpl; lra]]).
      apply Rabs_le_inv in Hx. rewrite Ef in Hx.
      rewrite (ltb_R 0.5%float (PrimFloat.sub dv f) Fh Fx), Eh.
      destruct HG as [->| ->].
      + (* floor already T: dv - f in [0, 0.38] *)
        rewrite Rlt_bool_false by lra. split; [exact Ff|exact Ef].
      + (* floor is T - 1: dv - f in (0.62, 1): bump *)
        rewrite minus_IZR in HF, Hx. rewrite Rlt_bool_true by lra.
        destruct (add_R f 1%float Ff F1) as [Ea Fa'].
        { rewrite Ef, E1, minus_IZR. replace (IZR T - 1 + 1) with (IZR T) by ring. rewrite rnd_IZR.
          - apply Rle_lt_trans with (1:=BT). apply bpow_lt. lia.
          - apply le_IZR. rewrite abs_IZR. apply Rle_trans with (1:=BT). simpl. lra. }
        split; [exact Fa'|]. rewrite Ea, Ef, E1, minus_IZR. replace (IZR T - 1 + 1) with (IZR T) by ring. apply rnd_IZR.
        apply le_IZR. rewrite abs_IZR. apply Rle_trans with (1:=BT). simpl. lra. }
  assert (BT52 : forall z : Z, Rabs (IZR z) <= 1024 * (bpow radix2 40 + 1024) + 1 -> Rabs (IZR z) <= bpow radix2 52).
  { intros z H. apply Rle_trans with (1:=H). rewrite P40. simpl. lra. }
  (* the three cases of the remainder's sign *)
  rewrite (eqb_R md 0%float Fmd F0), E0. fold M.
  destruct (Req_bool_spec M 0) as [M0|M0]; cbn [negb].
  - (* md = 0: a / b = t *)
    destruct (Main dv0 t Fdv0 ltac:(lra) ltac:(apply BT52; lra)) as [Ffd Efd]. cbv zeta in Ffd, Efd. cbn [fst].
    split; [exact Ffd|]. rewrite Efd. f_equal. symmetry. apply floor_unique.
    replace (A / B) with (IZR t) by (rewrite M0 in ETB; field_simplify_eq; lra). lra.
  - rewrite (ltb_R b 0%float Fb F0), (ltb_R md 0%float Fmd F0), E0. fold B M. rewrite (Rlt_bool_false B 0) by lra. cbn [xorb].
    destruct (Rlt_bool_spec M 0) as [Mn|Mp].
    + (* md < 0: quotient dv0 - 1, floor = t - 1 *)
      destruct (sub_R dv0 1%float Fdv0 F1) as [Ed Fd'].
      { rewrite E1. apply Rle_lt_trans with (bpow radix2 52); [apply rnd_bound; [lia|]|apply bpow_lt; lia].
        apply Rabs_le_inv in Hdv0. apply Rabs_le_inv in Bt. rewrite P40 in Bt. apply Rabs_le. simpl. lra. }
      rewrite E1 in Ed. set (dv := PrimFloat.sub dv0 1) in *.
      assert (Hdv : Rabs (R_of dv - IZR (t - 1)) <= / 4 + / 8 + / 512).
      { rewrite minus_IZR. pose proof (gen_err (R_of dv0 - 1)) as G. rewrite <- Ed in G.
        replace (R_of dv - (IZR t - 1)) with ((R_of dv - (R_of dv0 - 1)) + (R_of dv0 - IZR t)) by ring.
        apply Rle_trans with (1:=Rabs_triang _ _).
        assert (Rabs (R_of dv0 - 1) <= 1024 * (bpow radix2 40 + 1024) + 2).
        { apply Rabs_le_inv in Hdv0. apply Rabs_le_inv in Bt. apply Rabs_le. lra. }
        assert (eta <= / 1048576) by (unfold eta; apply Rle_trans with (bpow radix2 (-20)); [apply bpow_le; lia|simpl; lra]).
        unfold u53 in G. rewrite P40 in *. pose proof (Rabs_pos (R_of dv0 - 1)). lra. }
      destruct (Main dv (t - 1)%Z Fd' Hdv) as [Ffd Efd].
      { apply BT52. rewrite minus_IZR. apply Rle_trans with (1:=Rabs_sub_le _ _). rewrite Rabs_R1. lra. }
      cbv zeta in Ffd, Efd. cbn [fst]. split; [exact Ffd|]. rewrite Efd. f_equal. symmetry. apply floor_unique.
      rewrite minus_IZR. replace (A / B) with (IZR t + M / B) by (field_simplify_eq; lra).
      assert (-1 < M / B < 0).
      { unfold Rabs in Lmd. destruct (Rcase_abs M); [|lra]. split.
        - apply Rmult_lt_reg_r with B; [lra|]. unfold Rdiv. rewrite Rmult_assoc, Rinv_l by lra. lra.
        - apply Rmult_lt_reg_r with B; [lra|]. unfold Rdiv. rewrite Rmult_assoc, Rinv_l by lra. lra. }
      lra.
    + (* md > 0: floor = t *)
      destruct (Main dv0 t Fdv0 ltac:(lra) ltac:(apply BT52; lra)) as [Ffd Efd]. cbv zeta in Ffd, Efd. cbn [fst].
      split; [exact Ffd|]. rewrite Efd. f_equal. symmetry. apply floor_unique.
      replace (A / B) with (IZR t + M / B) by (field_simplify_eq; lra).
      assert (0 < M / B < 1).
      { unfold Rabs in Lmd. destruct (Rcase_abs M); [lra|]. split.
        - apply Rmult_lt_reg_r with B; [lra|]. unfold Rdiv. rewrite Rmult_assoc, Rinv_l by lra. lra.
        - apply Rmult_lt_reg_r with B; [lra|]. unfold Rdiv. rewrite Rmult_assoc, Rinv_l by lra. lra. }
      lra.
Qed.
