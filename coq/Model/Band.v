(* Model/Band.v -- frequency-band model of RadioSignal (C02): channel labels, band edges, frequency
   slicing (RadioSignal._freq_slice) and the odd-nchan normalisation of freq_align.  The alignment
   constants come from the table GENERATED from core.py (Gen/GenConsts.v).  No proofs here. *)
From Coq Require Import ZArith QArith Qabs List Bool String.
From PB Require Import Lib.PySlice Gen.GenConsts.
Import ListNotations.
Open Scope Z_scope.

(* alignment: 0 = "bottom", 1 = "center", 2 = "top" *)
Definition align_name (a : Z) : string := if a =? 0 then "bottom" else if a =? 1 then "center" else "top".
Fixpoint lookup (k : string) (t : list (string * Q)) : option Q :=
  match t with [] => None | (k', v) :: r => if String.eqb k k' then Some v else lookup k r end.
(* value of _align as written in the source *)
Definition align_q (a : Z) : Q := match lookup (align_name a) align_table with Some q => q | None => 0 end.

Record band := { cf : Q ; bw : Q ; nchan : Z ; align : Z }.

(* freq_align setter: 'center' when nchan is odd *)
Definition norm_align (n a : Z) : Z := if Z.odd n then 1 else a.
Definition mk_band (c b : Q) (n a : Z) : band := {| cf := c; bw := b; nchan := n; align := norm_align n a |}.

Definition label (b : band) (i : Z) : Q :=
  (cf b + bw b * (inject_Z i + align_q (align b) - inject_Z (nchan b) / 2))%Q.
Definition labels (b : band) : list Q := map (fun i => label b (Z.of_nat i)) (seq 0 (Z.to_nat (nchan b))).
Definition bandwidth (b : band) : Q := (bw b * inject_Z (nchan b))%Q.
Definition max_freq (b : band) : Q := (cf b + bandwidth b / 2)%Q.
Definition min_freq (b : band) : Q := (cf b - bandwidth b / 2)%Q.

(* z[:, a:b:c] -- errors: 2 = AssertionError (step <> 1, empty range), 3 = ValueError (zero step) *)
Inductive bres := BOk (b : band) (lo : Z) | BErr (e : Z).
Definition freq_slice (b : band) (a c st : option Z) : bres :=
  match st with
  | Some 0 => BErr 3
  | _ =>
    let s := match st with None => 1 | Some s => s end in
    if s <? 0 then
      (* slice.indices with a negative step: the assertion s.step == 1 fails *)
      BErr 2
    else
    match slice_indices a c st (nchan b) with
    | None => BErr 2
    | Some (lo, hi, s) =>
      if negb (s =? 1) then BErr 2
      else if negb (lo <? hi) then BErr 2
      else BOk (mk_band ((label b lo + label b (hi - 1)) / 2)%Q (bw b) (hi - lo) 1) lo
    end
  end.

Fixpoint freq_slices (b : band) (sl : list (option Z * option Z)) : bres :=
  match sl with
  | [] => BOk b 0
  | (a, c) :: r =>
    match freq_slice b a c None with
    | BErr e => BErr e
    | BOk b1 lo1 => match freq_slices b1 r with BErr e => BErr e | BOk b2 lo2 => BOk b2 (lo1 + lo2) end
    end
  end.

(* ---------- observation and executable statement of C02 ---------- *)
Record bobs := { bo_cf : Q; bo_bw : Q; bo_n : Z; bo_align : Z; bo_labels : list Q; bo_min : Q; bo_max : Q; bo_bandwidth : Q }.
Definition bobs_of_model (b : band) : bobs :=
  {| bo_cf := cf b; bo_bw := bw b; bo_n := nchan b; bo_align := align b; bo_labels := labels b;
     bo_min := min_freq b; bo_max := max_freq b; bo_bandwidth := bandwidth b |}.

Local Open Scope Q_scope.
Definition Qclose (tol a b : Q) : bool := Qle_bool (Qabs (a - b)) tol.
Fixpoint all_close (tol : Q) (xs ys : list Q) : bool :=
  match xs, ys with
  | [], [] => true
  | x :: xs', y :: ys' => Qclose tol x y && all_close tol xs' ys'
  | _, _ => false
  end.
Fixpoint indexed {A} (i : Z) (l : list A) : list (Z * A) :=
  match l with [] => [] | x :: r => (i, x) :: indexed (i + 1)%Z r end.

(* the documented constants 0, 1/2, 1 -- deliberately NOT read from the generated table *)
Definition a_doc (a : Z) : Q := if (a =? 0)%Z then 0 else if (a =? 1)%Z then 1 # 2 else 1.

(* C02, first half: labels follow the band model.  Bit mask of violated clauses. *)
Definition C02_ok (tol : Q) (o : bobs) : Z :=
  let n := bo_n o in
  let nq := inject_Z n in
  let b1 := (Z.of_nat (List.length (bo_labels o)) =? n)%Z && (1 <=? n)%Z in
  let b2 := forallb (fun p : Z * Q => let (i, f) := p in
              Qclose tol f (bo_cf o + bo_bw o * (inject_Z i + a_doc (bo_align o) - nq / 2))) (indexed 0 (bo_labels o)) in
  let b4 := (if Z.odd n then (bo_align o =? 1)%Z else true) &&
            ((bo_align o =? 0) || (bo_align o =? 1) || (bo_align o =? 2))%Z in
  let b8 := forallb (fun f => Qle_bool (bo_min o - tol) f && Qle_bool f (bo_max o + tol)) (bo_labels o) &&
            Qclose tol (bo_max o - bo_min o) (nq * bo_bw o) && Qclose tol (bo_bandwidth o) (nq * bo_bw o) in
  ((if b1 then 0 else 1) + (if b2 then 0 else 2) + (if b4 then 0 else 4) + (if b8 then 0 else 8))%Z.

Fixpoint drop {A} (n : nat) (l : list A) : list A :=
  match n, l with O, _ => l | S n', _ :: r => drop n' r | S _, [] => [] end.
Fixpoint take {A} (n : nat) (l : list A) : list A :=
  match n, l with O, _ => [] | S n', x :: r => x :: take n' r | S _, [] => [] end.

(* C02, second half: the labels of a frequency-sliced signal are the selected labels of the original;
   lo = index of the first selected channel *)
Definition C02_slice_ok (tol : Q) (orig res : bobs) (lo : Z) : Z :=
  let sel := take (Z.to_nat (bo_n res)) (drop (Z.to_nat lo) (bo_labels orig)) in
  ((if all_close tol sel (bo_labels res) then 0 else 16) +
   (if Qclose tol (bo_bw orig) (bo_bw res) then 0 else 32))%Z.

Definition bobs_diff (tol : Q) (m o : bobs) : Z :=
  ((if (bo_n m =? bo_n o)%Z then 0 else 1) + (if (bo_align m =? bo_align o)%Z then 0 else 2) +
   (if Qclose tol (bo_cf m) (bo_cf o) then 0 else 4) + (if Qclose tol (bo_bw m) (bo_bw o) then 0 else 8) +
   (if all_close tol (bo_labels m) (bo_labels o) then 0 else 16) +
   (if Qclose tol (bo_min m) (bo_min o) && Qclose tol (bo_max m) (bo_max o) then 0 else 32))%Z.
