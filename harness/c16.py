"""C16: every signal object satisfies its class contract; copies reproduce it faithfully.
(P) Props/C16.v over the class table GENERATED from core.py (T2); (T) Model/Contract.construct evaluated by vm_compute on the
description of every attempted construction (class, shape, dtype, kind of every metadata argument) and compared with what the
constructor did (object or ValueError, resulting dtype, normalised alignment, chan_bw tied to sample_rate); (M) the executable
contract Contract.WF evaluated on the observed attributes of every signal the run sees - constructed directly or returned by library
operations - and like() / pickle / cloudpickle / dask helpers reproducing every attribute."""
import pickle
import numpy as np
import astropy.units as u
from astropy.time import Time
import dask.array as da
import cloudpickle
import pulsarbat as pb
from harness import exact as X
from harness.common import zlit, listlit

VFILES = ['Gen/GenConsts.v', 'Model/Contract.v', 'Proofs/ContractProofs.v', 'Gen/GenContract.v', 'Proofs/ContractGen.v', 'Props/C16.v']
ATTRS = ('sample_rate', 'start_time', 'center_freq', 'chan_bw', 'freq_align', 'pol_type', 'meta')

HEADER = '''From Coq Require Import ZArith String List Bool. Import ListNotations.
From PB Require Import Model.Contract.
Open Scope string_scope.
Definition q (k : qkind) (i : nat) : qarg := {| q_kind := k; q_id := i |}.
Definition A (sh : list Z) (dt : string) (r : qarg) (st : tkind) (me : mkind) (cf bw : qarg) (al po : string) : args :=
  {| a_shape := sh; a_dtype := dt; a_rate := r; a_start := st; a_meta := me; a_center := cf; a_bw := bw; a_align := al; a_pol := po |}.
(* impl: error flag, resulting dtype, alignment ("" = none), chan_bw id (0 = none) *)
Definition chk (c : string) (a : args) (err : bool) (dt al : string) (bwid : nat) : Z :=
  match construct c a, err with
  | Err, true => 0%Z
  | Ok s, false =>
    if String.eqb (g_dtype s) dt && String.eqb (match g_align s with Some x => x | None => "" end) al &&
       Nat.eqb (match g_bw s with Some b => q_id b | None => 0 end) bwid then 0%Z else 1%Z
  | Err, false => 2%Z
  | Ok _, true => 3%Z
  end.
Definition G (c : string) (sh : list Z) (dt : string) (r : qarg) (st : tkind) (me : mkind) (cf bw : option qarg) (al po : option string) : signal :=
  {| g_cls := c; g_shape := sh; g_dtype := dt; g_rate := r; g_start := st; g_meta := me; g_center := cf; g_bw := bw; g_align := al; g_pol := po |}.
Definition wf (s : signal) : Z := if WF s then 0%Z else 1%Z.
'''
DTYPES = ['float64', 'float32', 'float16', 'complex128', 'complex64', 'int8', 'int16', 'int32', 'int64', 'uint8', 'uint16', 'uint32', 'uint64', 'bool',
          '>f8', '>f4', '>c16', '>c8', '>i4', '>f8', '>c16']      # non-native byte order: not in any class's set, safely castable


def s_lit(s):
    return '"' + s + '"'


def rate_arg(rng, kind):
    """-> (python value, coq qkind)"""
    if kind == 'ok':
        v = rng.choice([1 * u.Hz, 2.5 * u.kHz, 1e6 * u.Hz, 0.001 * u.Hz, 3.2 * u.GHz, 4 / u.s, np.float32(2) * u.MHz])
        return v, 'QPos'
    if kind == 'zero':
        return 0 * u.Hz, 'QZero'
    if kind == 'neg':
        return -1 * u.kHz, 'QNeg'
    if kind == 'nan':
        return np.nan * u.Hz, 'QNan'
    if kind == 'array':
        return np.array([1.0, 2.0]) * u.Hz, 'QArray'
    if kind == 'unit':
        return rng.choice([1 * u.m, 1 * u.s, 1 * u.dimensionless_unscaled]), 'QWrongUnit'
    return rng.choice([1.0, 5, '1 Hz', None, np.float64(3)]), 'QNotQuantity'


def observe(z, want_cls=None):
    """signal -> Coq literal of Contract.signal from its public attributes only"""
    def qk(x, idn):
        try:
            if not isinstance(x, u.Quantity):
                return f'(q QNotQuantity {idn})'
            t = x.to(u.Hz)
            if not t.isscalar:
                return f'(q QArray {idn})'
            v = float(t.value)
            return f'(q {"QPos" if v > 0 else ("QZero" if v == 0 else ("QNeg" if v < 0 else "QNan"))} {idn})'
        except Exception:
            return f'(q QWrongUnit {idn})'
    st = z.start_time
    stk = 'TNone' if st is None else ('TScalar' if isinstance(st, Time) and st.isscalar else ('TArray' if isinstance(st, Time) else 'TNotTime'))
    me = z.meta
    mek = 'MNone' if me is None else ('MDict' if isinstance(me, dict) else 'MNotDict')
    radio = isinstance(z, pb.RadioSignal)
    cf = f'(Some {qk(z.center_freq, 2)})' if radio else 'None'
    same = radio and (z.chan_bw is z.sample_rate or (z.chan_bw == z.sample_rate))
    bw = f'(Some {qk(z.chan_bw, 1 if (same and isinstance(z, pb.BasebandSignal)) else 3)})' if radio else 'None'
    al = f'(Some {s_lit(str(z.freq_align))})' if radio else 'None'
    po = f'(Some {s_lit(str(z.pol_type))})' if hasattr(z, 'pol_type') else 'None'
    return (f'(G {s_lit(type(z).__name__)} {listlit(list(z.shape), lambda v: str(v) + '%Z')} {s_lit(str(z.dtype))} {qk(z.sample_rate, 1)} {stk} {mek} '
            f'{cf} {bw} {al} {po})')


def attrs_equal(a, b):
    if type(a) is not type(b) or a.shape != b.shape or a.dtype != b.dtype:
        return 'type/shape/dtype'
    for k in ATTRS:
        if hasattr(a, k) != hasattr(b, k):
            return k
        if hasattr(a, k):
            x, y = getattr(a, k), getattr(b, k)
            if (x is None) != (y is None):
                return k
            if x is not None and not np.all(x == y):
                return k
            if isinstance(x, u.Quantity) and x.unit != y.unit:
                return k + '.unit'
    return None


def run(ctx):
    rng = ctx.rng
    nprng = np.random.default_rng(ctx.seed + 16)
    ctx.rule = ('constructions of all six classes: shapes of rank 0..4 incl. too few dimensions, wrong fixed axis lengths, empty sample axes, '
                'zero time samples; 14 dtypes; NumPy and Dask arrays; each metadata argument valid or invalid in every way the setters '
                'distinguish (not a Quantity, wrong unit, array, zero, negative, NaN; non-Time / array start_time; non-dict meta; alignment / '
                'polarisation outside their sets incl. unhashable values); attribute assignment after construction; every signal returned '
                'by a library operation; like(), pickle, cloudpickle, compute / persist / to_dask_array / rechunk. distinct by arguments.')
    ctx.trusted = ['translator T16 translate/py_contract2coq.py (syntax-tree pins of Signal.__init__ and the validating setters, raise messages ignored)', 'Coq 8.16.1 kernel (axiom-free)', 'translator T2 (class table from the AST of core.py)',
                   'numpy can_cast(.., "safe") towards float64 / complex128 as transcribed in Model/Contract.can_cast_safe (validated here)']
    ctx.assumptions = ['the data argument is an array object (NumPy or Dask); lists and scalars are outside the quantifier of the property']
    built = ctx.build(['Props/C16.vo'])
    ctx.count_obligations(VFILES)
    if built:
        ctx.assumptions_of('Props/C16.v', allowed=set())
    items, meta = [], []
    seen_signals = []

    def add_wf(z, inp):
        items.append(f'wf {observe(z)}')
        meta.append(dict(inp=inp, impl=repr(z)[:120], kind='WF'))

    NC = 700 if ctx.tier == 'quick' else 12000
    for c in range(NC):
        cls = rng.choice(X.CLASSES)
        C = getattr(pb, cls)
        req = {'Signal': 1, 'RadioSignal': 2, 'IntensitySignal': 2, 'FullStokesSignal': 3, 'BasebandSignal': 2, 'DualPolarizationSignal': 3}[cls]
        # shape
        r = rng.random()
        rank = req + rng.choice([0, 0, 1]) if r < 0.8 else rng.choice([0, 1, 2, 3, 4])
        shape = [rng.choice([1, 2, 3, 4, 5, 8]) for _ in range(rank)]
        if rank >= 1:
            shape[0] = rng.choice([0, 1, 4, 6])
        if rank >= 3 and cls == 'FullStokesSignal':
            shape[2] = rng.choice([4, 4, 4, 3, 2])
        if rank >= 3 and cls == 'DualPolarizationSignal':
            shape[2] = rng.choice([2, 2, 2, 4, 1])
        if rank >= 2 and rng.random() < 0.06:
            shape[rng.randrange(1, rank)] = 0
        dt = rng.choice(DTYPES + ['float64', 'complex128', 'float32', 'complex64'])
        data = np.zeros(shape, dtype=dt)
        use_dask = rng.random() < 0.15 and rank >= 1
        if use_dask:
            data = da.from_array(data, chunks=-1)
        invalid = rng.choice([None, None, None, 'rate', 'start', 'meta', 'center', 'bw', 'align', 'pol'])
        rate, rk = rate_arg(rng, 'ok' if invalid != 'rate' else rng.choice(['zero', 'neg', 'nan', 'array', 'unit', 'notq']))
        cf, ck = rate_arg(rng, 'ok' if invalid != 'center' else rng.choice(['array', 'unit', 'notq']))
        if invalid != 'center' and rng.random() < 0.3:
            cf, ck = rng.choice([(0 * u.Hz, 'QZero'), (-3 * u.MHz, 'QNeg')])
        bw, bk = rate_arg(rng, 'ok' if invalid != 'bw' else rng.choice(['zero', 'neg', 'nan', 'array', 'unit', 'notq']))
        if invalid == 'start':
            st, sk = rng.choice([(59867.2442234, 'TNotTime'), (Time(['2020-01-01', '2020-01-02']), 'TArray'), ('yesterday', 'TNotTime'), (12, 'TNotTime'),
                                 (Time(['2020-01-01T00:00:00', '2020-01-02T00:00:00'], format='isot', precision=9), 'TArray'),
                                 (Time('2020-01-01T00:00:00', format='isot', precision=9) + np.arange(3) * u.s, 'TArray'),
                                 (Time([58000.5, 58001.5], format='mjd'), 'TArray'),
                                 (Time([['2020-01-01T00:00:00']], format='isot', precision=9), 'TArray')])
        else:
            st, sk = rng.choice([(None, 'TNone'), (Time('2020-01-01T00:00:00'), 'TScalar'), (Time(58000.5, format='mjd'), 'TScalar')])
        if invalid == 'meta':
            me, mk = rng.choice([(5, 'MNotDict'), ('ab', 'MNotDict'), ([1, 2], 'MNotDict'), (3.5, 'MNotDict'), (0, 'MNotDict'), (False, 'MNotDict'), (0.0, 'MNotDict'), (0j, 'MNotDict')])
        else:
            me, mk = rng.choice([(None, 'MNone'), ({'a': 1}, 'MDict'), ({}, 'MDict')])
        al = rng.choice(['bottom', 'center', 'top']) if invalid != 'align' else rng.choice(['middle', 'Center', '', 0, None, ['center'], ('top',)])
        po = rng.choice(['linear', 'circular']) if invalid != 'pol' else rng.choice(['Linear', 'elliptical', '', 1, None, ['linear']])
        kw = dict(sample_rate=rate, start_time=st, meta=me)
        if cls != 'Signal':
            kw.update(center_freq=cf, freq_align=al)
            if cls in ('RadioSignal', 'IntensitySignal', 'FullStokesSignal'):
                kw['chan_bw'] = bw
        if cls == 'DualPolarizationSignal':
            kw['pol_type'] = po
        inp = dict(op='construct', cls=cls, shape=shape, dtype=dt, dask=use_dask, invalid=invalid,
                   args={k: repr(v)[:40] for k, v in kw.items()})
        ctx.seen(inp); ctx.count('cls:' + cls); ctx.count('invalid:' + str(invalid)); ctx.count('dtype:' + dt)
        z, err = None, None
        try:
            z = C(data, **kw)
        except ValueError as e:
            err = e
        except Exception as e:
            err = e
            ctx.fail('violation_raised_other_than_ValueError', inp, impl=repr(e))
        al_s = al if isinstance(al, str) else '<notstr>'
        po_s = po if isinstance(po, str) else '<notstr>'
        a_l = (f'(A {listlit(shape, lambda v: str(v) + '%Z')} {s_lit(dt)} (q {rk} 1) {sk} {mk} (q {ck} 2) (q {bk} 3) {s_lit(al_s)} {s_lit(po_s)})')
        if z is not None:
            bwid = 0 if cls == 'Signal' else (1 if isinstance(z, pb.BasebandSignal) and z.chan_bw is z.sample_rate else (1 if isinstance(z, pb.BasebandSignal) and z.chan_bw == z.sample_rate else 3))
            items.append(f'chk {s_lit(cls)} {a_l} false {s_lit(str(z.dtype))} {s_lit(str(getattr(z, "freq_align", "")))} {bwid}')
            add_meta = dict(inp=inp, impl=repr(z)[:100], kind='construct')
            meta.append(add_meta)
            add_wf(z, inp)
            seen_signals.append(z)
            if use_dask and not isinstance(z.data, da.Array):
                ctx.fail('dask_data_not_kept', inp)
        else:
            items.append(f'chk {s_lit(cls)} {a_l} true "" "" 0')
            meta.append(dict(inp=inp, impl=repr(err)[:100], kind='construct'))

    # ---- assignment after construction goes through the same setters
    for c in range(80 if ctx.tier == 'quick' else 800):
        cls = rng.choice(X.CLASSES)
        z = X.make_signal(rng, cls, 4)
        attr = rng.choice(['sample_rate', 'start_time', 'meta'] + (['center_freq', 'chan_bw', 'freq_align'] if cls != 'Signal' else []) +
                          (['pol_type'] if cls == 'DualPolarizationSignal' else []))
        bad = {'sample_rate': [0 * u.Hz, -1 * u.Hz, 1 * u.m, 3.0, np.ones(2) * u.Hz], 'start_time': [5.5, 'x', Time(['2020-01-01T00:00:00', '2020-01-02T00:00:00'], format='isot', precision=9), Time('2021-01-01T00:00:00', format='isot', precision=9) + np.arange(2) * u.s, Time([58000.5], format='mjd')], 'meta': [3, 'ab', 0, False, 0.0, 0j],
               'center_freq': [1 * u.s, 2.0, np.ones(2) * u.Hz], 'chan_bw': [0 * u.Hz, -2 * u.kHz, 1 * u.s, 4],
               'freq_align': ['mid', 3, None, ['center']], 'pol_type': ['x', 0, None, ['linear']]}[attr]
        v = rng.choice(bad)
        inp = dict(op='assign_invalid', cls=cls, attr=attr, value=repr(v)[:30])
        ctx.seen(inp); ctx.count('assign:' + attr)
        before = getattr(z, attr)
        try:
            setattr(z, attr, v)
            ctx.fail('invalid_assignment_accepted', inp)
        except ValueError:
            pass
        except Exception as e:
            ctx.fail('violation_raised_other_than_ValueError', inp, impl=repr(e))
        after = getattr(z, attr)
        if not ((before is None and after is None) or np.all(before == after)):
            ctx.fail('failed_assignment_changed_the_attribute', inp)
        add_wf(z, inp)

    # ---- signals returned by library operations, and faithful copies
    NO = 150 if ctx.tier == 'quick' else 2500
    for c in range(NO):
        cls = rng.choice(X.CLASSES + ['BasebandSignal', 'DualPolarizationSignal'])
        L = rng.choice([8, 12, 16])
        ss = X.sample_shape(rng, cls)
        cplx = cls in ('BasebandSignal', 'DualPolarizationSignal')
        data = nprng.standard_normal((L,) + ss) + (1j * nprng.standard_normal((L,) + ss) if cplx else 0)
        z = X.make_signal(rng, cls, L, sshape=ss, data=data.astype(rng.choice([np.complex64, np.complex128]) if cplx else rng.choice([np.float32, np.float64])))
        z.meta = rng.choice([None, {'k': [1, {'n': 2}]}])
        ops = [('slice', lambda: z[1:L - 1]), ('slice_step', lambda: z[::2]), ('like', lambda: type(z).like(z)),
               ('time_shift', lambda: pb.time_shift(z, 1.5)), ('time_shift_crop', lambda: pb.time_shift(z, -2.25, crop=True)),
               ('snippet', lambda: pb.snippet(z, 1.5, 4)), ('fast_len', lambda: pb.fast_len(z)), ('concat', lambda: pb.concatenate([z, type(z).like(z, start_time=None)])),
               ('ufunc', lambda: z * 2), ('compute', lambda: z.compute()), ('to_dask', lambda: z.to_dask_array()), ('rechunk', lambda: z.rechunk()),
               ('persist', lambda: z.to_dask_array().persist()),
               # ufuncs whose natural result dtype is NOT one the class admits (real from complex, bool): the result must be cast or refused
               ('ufunc_abs', lambda: np.abs(z)), ('ufunc_isfinite', lambda: np.isfinite(z)), ('ufunc_equal', lambda: z == z),
               ('ufunc_not_equal_scalar', lambda: np.not_equal(z, 0)), ('ufunc_abs_dask', lambda: np.abs(z.to_dask_array())),
               ('ufunc_isfinite_dask', lambda: np.isfinite(z.to_dask_array())), ('ufunc_signbit_or_abs', lambda: np.signbit(z) if not cplx else np.absolute(z)),
               ('ufunc_modf_or_abs', lambda: np.modf(z)[1] if not cplx else abs(z))]
        if isinstance(z, pb.RadioSignal):
            ops += [('freq_slice', lambda: z[:, : max(1, z.nchan - 1)]), ('concat_freq', lambda: pb.concatenate([z, z], axis='freq') if z.nchan % 2 == 0 or True else z),
                    ('incoherent', lambda: pb.incoherent_dedispersion(z, pb.DM(0.3)))]
        if isinstance(z, pb.BasebandSignal):
            ops += [('freq_shift', lambda: pb.freq_shift(z, 0.3 * z.sample_rate / L)), ('coherent', lambda: pb.coherent_dedispersion(z, pb.DM(1e-7))),
                    ('to_intensity', lambda: z.to_intensity()), ('stft', lambda: pb.contrib.stft(z, nperseg=4)),
                    ('istft_stft', lambda: pb.contrib.istft(pb.contrib.stft(z, nperseg=2), nperseg=2)), ('slice_step_bb', lambda: z[::3])]
        if isinstance(z, pb.DualPolarizationSignal):
            ops += [('to_stokes', lambda: z.to_stokes()), ('to_linear', lambda: z.to_linear()), ('to_circular', lambda: z.to_circular())]
        if isinstance(z, pb.FullStokesSignal):
            ops += [('stokes_I', lambda: z['I']), ('stokesV', lambda: z.stokesV)]
        name, fn = rng.choice(ops)
        inp = dict(op='library_op', name=name, cls=cls, shape=list(z.shape), dtype=str(z.dtype))
        ctx.seen(inp); ctx.count('op:' + name)
        try:
            y = fn()
        except Exception as e:
            ctx.count('op_raised:' + type(e).__name__)
            continue
        add_wf(y, inp)
        if isinstance(y, pb.BasebandSignal) and not (y.chan_bw == y.sample_rate):
            ctx.fail('baseband_chan_bw_not_sample_rate', inp, impl=[str(y.chan_bw), str(y.sample_rate)])
        # faithful copies
        for how, cp in (('like', lambda s: type(s).like(s)), ('pickle', lambda s: pickle.loads(pickle.dumps(s))),
                        ('cloudpickle', lambda s: cloudpickle.loads(cloudpickle.dumps(s))),
                        ('compute', lambda s: s.compute()), ('to_dask_compute', lambda s: s.to_dask_array().compute()),
                        ('rechunk_compute', lambda s: s.rechunk().compute()), ('persist_compute', lambda s: s.persist().compute())):
            if rng.random() < 0.4:
                try:
                    w = cp(y)
                    why = attrs_equal(y.compute(), w.compute())
                    if why or not np.array_equal(np.asarray(y.compute().data), np.asarray(w.compute().data), equal_nan=True):
                        ctx.fail('copy_differs', dict(inp, how=how), impl=why or 'data')
                    ctx.count('copy:' + how)
                except Exception as e:
                    ctx.fail('copy_raised', dict(inp, how=how, empty=len(y) == 0), impl=repr(e))

    res = ctx.run_cases(HEADER, items, shard=max(60, len(items) // 16 + 1))
    if res is None:
        return
    for r, m in zip(res, meta):
        if r:
            if m['kind'] == 'WF':
                ctx.fail('signal_violates_class_contract', m['inp'], impl=m['impl'])
            else:
                ctx.mismatch(f'constructor model vs implementation (code {r}: 1 attributes, 2 model refuses, 3 model accepts)', m['inp'], impl=m['impl'])
