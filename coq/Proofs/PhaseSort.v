(* Proofs/PhaseSort.v -- C15: argsort / sort of the model (stable insertion by the key (count, fraction), the order
   np.lexsort produces) return a PERMUTATION of the indices, sorted by that key; and a smaller rounded cycle implies a strictly
   smaller exact value (monotone rounding), so elements whose rounded cycles differ are in exact order. *)
From Coq Require Import ZArith Reals Psatz Floats Bool List Lia Sorting.Permutation Sorting.Sorted.
From Flocq Require Import Core BinarySingleNaN PrimFloat.
From PB Require Import Proofs.TwoSumExact Model.Phase2 Model.PhaseOrd Proofs.Floor Proofs.DayFrac Proofs.DayFrac3 Proofs.DayFracTail Proofs.DayFracFold Proofs.PhaseCmpAll Proofs.PhaseArgmin.
Import ListNotations.

(* ---------- generic stable insertion sort ---------- *)
Section Ins.
  Variable A : Type.
  Variable le : A -> A -> bool.
  Variable good : A -> Prop.                    (* the elements on which le is a total preorder *)
  Hypothesis le_total : forall a b, good a -> good b -> le a b = true \/ le b a = true.
  Hypothesis le_trans : forall a b c, good a -> good b -> good c -> le a b = true -> le b c = true -> le a c = true.

  Fixpoint ins (x : A) (l : list A) : list A :=
    match l with [] => [x] | y :: r => if le y x then y :: ins x r else x :: l end.
  Definition isort (l : list A) : list A := fold_left (fun acc x => ins x acc) l [].

  Lemma ins_perm x l : Permutation (ins x l) (x :: l).
  Proof. induction l as [|y r IH]; cbn [ins]; [apply Permutation_refl|]. destruct (le y x); [|apply Permutation_refl].
    apply Permutation_trans with (y :: x :: r); [apply perm_skip; exact IH|apply perm_swap]. Qed.
  Lemma isort_perm_gen l : forall acc, Permutation (fold_left (fun acc x => ins x acc) l acc) (l ++ acc).
  Proof. induction l as [|x r IH]; intros acc; cbn [fold_left app]; [apply Permutation_refl|].
    apply Permutation_trans with (1 := IH (ins x acc)). apply Permutation_trans with (r ++ x :: acc).
    - apply Permutation_app_head. apply ins_perm.
    - apply Permutation_sym. apply Permutation_middle. Qed.
  Lemma isort_perm l : Permutation (isort l) l.
  Proof. unfold isort. rewrite <- (app_nil_r l) at 2. apply isort_perm_gen. Qed.

  Definition sorted (l : list A) : Prop := StronglySorted (fun a b => le a b = true) l.
  Lemma ins_good x l : good x -> Forall good l -> Forall good (ins x l).
  Proof. intros Gx Gl. apply (Permutation_Forall (Permutation_sym (ins_perm x l))). constructor; assumption. Qed.
  Lemma ins_sorted x l : good x -> Forall good l -> sorted l -> sorted (ins x l).
  Proof.
    intros Gx. induction l as [|y r IH]; intros Gl S; cbn [ins]; [constructor; constructor|].
    inversion Gl as [|? ? Gy Gr]; subst. inversion S as [|? ? Sr Hy]; subst.
    destruct (le y x) eqn:E.
    - constructor; [apply IH; assumption|].
      apply (Permutation_Forall (Permutation_sym (ins_perm x r))). constructor; [exact E|exact Hy].
    - assert (Lxy : le x y = true) by (destruct (le_total x y Gx Gy) as [H|H]; [exact H|congruence]).
      constructor; [exact S|]. constructor; [exact Lxy|].
      rewrite Forall_forall in Hy, Gr |- *. intros z Hz. apply (le_trans x y z Gx Gy (Gr z Hz) Lxy (Hy z Hz)).
  Qed.
  Lemma isort_sorted_gen l : forall acc, Forall good l -> Forall good acc -> sorted acc ->
    sorted (fold_left (fun acc x => ins x acc) l acc).
  Proof. induction l as [|x r IH]; intros acc Gl Ga S; cbn [fold_left]; [exact S|].
    inversion Gl; subst. apply IH; [assumption|apply ins_good; assumption|apply ins_sorted; assumption]. Qed.
  Lemma isort_sorted l : Forall good l -> sorted (isort l).
  Proof. intros G. apply isort_sorted_gen; [exact G|constructor|constructor]. Qed.
End Ins.

(* ---------- the key order on finite doubles ---------- *)
Definition key := (PrimFloat.float * PrimFloat.float * nat)%type.
Definition good_key (k : key) : Prop := fin (fst (fst k)) /\ fin (snd (fst k)).

Lemma key_le_R (a b : key) : good_key a -> good_key b ->
  key_le a b = Rlt_bool (R_of (fst (fst a))) (R_of (fst (fst b))) ||
               (Req_bool (R_of (fst (fst a))) (R_of (fst (fst b))) && Rle_bool (R_of (snd (fst a))) (R_of (snd (fst b)))).
Proof.
  destruct a as [[aa ar] ai], b as [[ba br] bi]. intros [F1 F2] [F3 F4]. cbn [fst snd] in *. unfold key_le.
  rewrite (ltb_R aa ba F1 F3), (eqb_R aa ba F1 F3), (leb_R ar br F2 F4). reflexivity.
Qed.
Lemma key_le_total a b : good_key a -> good_key b -> key_le a b = true \/ key_le b a = true.
Proof.
  intros Ga Gb. rewrite (key_le_R a b Ga Gb), (key_le_R b a Gb Ga).
  set (x := R_of (fst (fst a))). set (y := R_of (fst (fst b))). set (u := R_of (snd (fst a))). set (v := R_of (snd (fst b))).
  destruct (Rlt_bool_spec x y); [left; reflexivity|]. destruct (Rlt_bool_spec y x); [right; reflexivity|].
  assert (E : x = y) by (apply Rle_antisym; assumption).
  rewrite !Req_bool_true by (rewrite ?E; reflexivity). cbn [orb andb].
  destruct (Rle_bool_spec u v); [left; reflexivity|right]. apply Rle_bool_true. apply Rlt_le. assumption.
Qed.
Lemma key_le_trans a b c : good_key a -> good_key b -> good_key c -> key_le a b = true -> key_le b c = true -> key_le a c = true.
Proof.
  intros Ga Gb Gc. rewrite (key_le_R a b Ga Gb), (key_le_R b c Gb Gc), (key_le_R a c Ga Gc).
  set (x := R_of (fst (fst a))). set (y := R_of (fst (fst b))). set (z := R_of (fst (fst c))).
  set (u := R_of (snd (fst a))). set (v := R_of (snd (fst b))). set (w := R_of (snd (fst c))).
  intros H1 H2.
  destruct (Rlt_bool_spec x y) as [L1|L1]; cbn [orb] in H1.
  - destruct (Rlt_bool_spec y z) as [L2|L2]; cbn [orb] in H2.
    + rewrite Rlt_bool_true by lra. reflexivity.
    + apply andb_true_iff in H2. destruct H2 as [E2 _]. apply Req_bool_true_iff in E2 || idtac.
      destruct (Req_bool_spec y z) as [E|E]; [|discriminate]. rewrite Rlt_bool_true by lra. reflexivity.
  - apply andb_true_iff in H1. destruct H1 as [E1 U1]. destruct (Req_bool_spec x y) as [E|E]; [|discriminate].
    destruct (Rlt_bool_spec y z) as [L2|L2]; cbn [orb] in H2.
    + rewrite Rlt_bool_true by lra. reflexivity.
    + apply andb_true_iff in H2. destruct H2 as [E2 U2]. destruct (Req_bool_spec y z) as [E'|E']; [|discriminate].
      rewrite Rlt_bool_false by lra. rewrite Req_bool_true by lra. cbn [orb andb].
      destruct (Rle_bool_spec u v) as [A1|A1]; [|discriminate]. destruct (Rle_bool_spec v w) as [A2|A2]; [|discriminate].
      apply Rle_bool_true. lra.
Qed.

(* ---------- argsort ---------- *)
Lemma insert_stable_is_ins x : forall l, insert_stable x l = ins key key_le x l.
Proof. induction l as [|y r IH]; cbn [insert_stable ins]; [reflexivity|]. rewrite IH. reflexivity. Qed.

Definition keyed (l : list ph) : list key :=
  map (fun ip => (p_int (snd ip), p_frac (snd ip), fst ip)) (combine (seq 0 (length l)) l).

Lemma argsort_is l : argsort l = map (fun k : key => snd k) (isort key key_le (keyed l)).
Proof.
  unfold argsort, isort. fold (keyed l). reflexivity.
Qed.

Lemma keyed_idx l : map (fun k : key => snd k) (keyed l) = seq 0 (length l).
Proof.
  unfold keyed. rewrite map_map. cbn [snd fst].
  rewrite <- (map_map fst (fun i => i)), map_id.
  generalize 0%nat. induction l as [|p r IH]; intros s; cbn [length seq combine map]; [reflexivity|]. f_equal. apply IH.
Qed.

(* every index exactly once *)
Theorem argsort_perm l : Permutation (argsort l) (seq 0 (length l)).
Proof. rewrite argsort_is, <- keyed_idx. apply Permutation_map. apply isort_perm. Qed.

(* sorted by (count, fraction) whenever these are finite doubles *)
Theorem argsort_sorted l : Forall good_key (keyed l) ->
  StronglySorted (fun a b => key_le a b = true) (isort key key_le (keyed l)).
Proof. intros G. apply (isort_sorted key key_le good_key key_le_total key_le_trans). exact G. Qed.

(* the first component of the key decides exactly: a smaller rounded cycle is a smaller exact value *)
Theorem cycle_lt_exact (a b : ph) : ok_ph a -> ok_ph b -> PrimFloat.ltb (cycle a) (cycle b) = true -> (V a < V b)%R.
Proof.
  intros Ha Hb H. destruct (cycle_R a Ha) as (Ea & Fa & _). destruct (cycle_R b Hb) as (Eb & Fb & _).
  rewrite (ltb_R _ _ Fa Fb), Ea, Eb in H. destruct (Rlt_bool_spec (rnd (V a)) (rnd (V b))) as [L|L]; [|discriminate].
  destruct (Rlt_dec (V a) (V b)) as [Y|N]; [exact Y|exfalso]. apply Rnot_lt_le in N. apply rnd_le in N. lra.
Qed.
(* psort is the input rearranged *)
Lemma map_nth_seq {A} (d : A) : forall l, map (fun i => nth i l d) (seq 0 (length l)) = l.
Proof.
  induction l as [|p r IH]; [reflexivity|]. cbn [length seq map nth]. f_equal.
  rewrite <- seq_shift, map_map. cbn [nth]. exact IH.
Qed.
Theorem psort_perm l : Permutation (psort l) l.
Proof.
  unfold psort. apply Permutation_trans with (map (nth_ph l) (seq 0 (length l))); [apply Permutation_map; apply argsort_perm|].
  unfold nth_ph. rewrite map_nth_seq. apply Permutation_refl.
Qed.
