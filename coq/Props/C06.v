(* Props/C06.v -- dispersion delays obey the f^-2 law; incoherent dedispersion realigns by them. *)
From Coq Require Import ZArith QArith Qround List.
From PB Require Import Gen.GenConsts Model.Ledger Model.Band Model.Disp Proofs.LedgerProofs Proofs.DispProofs.
Open Scope Q_scope.

Theorem C06_constant : Kdisp == 1000000 # 241.     (* 1/2.41e-4, from the GENERATED literal *)
Proof. exact Kdisp_value. Qed.
Theorem C06_law : forall dm f fr, ~ f == 0 -> ~ fr == 0 ->
  time_delay dm f fr == Kdisp * dm * (1000000000000 / (f * f) - 1000000000000 / (fr * fr)).
Proof. exact delay_law. Qed.
Theorem C06_antisym : forall dm f g, ~ f == 0 -> ~ g == 0 -> time_delay dm f g == - time_delay dm g f.
Proof. exact delay_antisym. Qed.
Theorem C06_chain : forall dm a b c, ~ a == 0 -> ~ b == 0 -> ~ c == 0 ->
  time_delay dm a b + time_delay dm b c == time_delay dm a c.
Proof. exact delay_chain. Qed.
Theorem C06_sample : forall dm f fr r, sample_delay dm f fr r == time_delay dm f fr * r.
Proof. exact sample_delay_def. Qed.
Theorem C06_round_nearest : forall q, inject_Z (round_half_even q) - (1 # 2) <= q <= inject_Z (round_half_even q) + (1 # 2).
Proof. exact rhe_bounds. Qed.

(* every returned sample (k, i) has its source k + d'_i inside the input and sits, in absolute time, d_i/rate
   before that source: out[T, i] = in[T + d_i/rate, i] *)
Theorem C06_realign : forall l ds l' cb ds',
  (0 <= len l)%Z -> (0 < rate l) -> ends_min ds ->
  incoherent l ds = IOk l' cb ds' ->
  (0 <= cb)%Z /\ ds' = map (fun d => (d + cb)%Z) ds /\ rate l' = rate l /\ (0 <= len l')%Z /\
  (t0 l' = None <-> t0 l = None) /\
  (forall d', In d' ds' -> (0 <= d')%Z /\ forall k, (0 <= k < len l')%Z -> (0 <= k + d' < len l)%Z) /\
  (forall d k, In d ds -> opt_Qeq (match time_of l' k with Some t => Some (t + inject_Z d / rate l) | None => None end)
                                  (time_of l (k + (d + cb)))).
Proof. exact incoherent_sound. Qed.

(* the premise ends_min holds for the delays of every band with positive labels, for either sign of DM *)
Theorem C06_band_delays : forall b dm fr rate, 0 < bw b -> 0 < rate -> 0 < label b 0 ->
  ends_min (chan_delays b dm fr rate).
Proof. exact chan_delays_ends_min. Qed.

Print Assumptions C06_constant.
Print Assumptions C06_chain.
Print Assumptions C06_realign.
Print Assumptions C06_band_delays.
