(* Model/Ledger.v -- the time ledger of a signal and every sample-subsetting operation of pulsarbat
   (C01, C12, C18).  Mirrors Signal._time_slice / __getitem__ (core.py), fast_len, the crop of
   time_shift, whole-sample snippet (transforms.py) and the crops of (in)coherent dedispersion.
   Exact rational arithmetic; no proofs in this file. *)
From Coq Require Import ZArith QArith Qabs List Bool.
From PB Require Import Lib.PySlice Model.FastLen.
Import ListNotations.
Open Scope Z_scope.

Record ledger := { t0 : option Q ; rate : Q ; len : Z }.

Definition time_of (l : ledger) (k : Z) : option Q :=
  match t0 l with None => None | Some t => Some (t + inject_Z k / rate l)%Q end.
Definition stop_time (l : ledger) : option Q := time_of l (len l).
Definition dt_of (l : ledger) : Q := (1 / rate l)%Q.
Definition time_length (l : ledger) : Q := (inject_Z (len l) / rate l)%Q.
(* Signal.contains: False without a start time, else the half-open interval *)
Definition contains (l : ledger) (t : Q) : bool :=
  match t0 l, stop_time l with
  | Some a, Some b => Qle_bool a t && negb (Qle_bool b t)
  | _, _ => false
  end.

Inductive op :=
| OSlice (a b c : option Z)            (* z[a:b:c] *)
| OFastLen                             (* fast_len(z) = z[:prev_fast_len(len z)] *)
| OShiftCrop (start stop : Z)          (* time_shift(crop=True): x[start : max(start, len+stop)] *)
| OSnippet (t n : Z)                   (* snippet with whole-sample t: bounds check, z[t:t+n] *)
| ODedispCrop (start stop : Z)         (* coherent_dedispersion: like(z, x)[start:stop] *)
| OIncohCrop (cb nout : Z).            (* incoherent: start_time += cb*dt, nout samples kept *)

(* result: new ledger and the affine provenance (off, stride): output sample k is input sample off+stride*k.
   Errors: 1 = ValueError, 2 = AssertionError (negative step), 3 = zero step (ValueError from slice.indices) *)
Inductive res := Ok (l : ledger) (off stride : Z) | Err (e : Z).

Definition time_slice (l : ledger) (a b c : option Z) : res :=
  match slice_indices a b c (len l) with
  | None => Err (match c with Some 0 => 3 | _ => 2 end)
  | Some (lo, hi, st) =>
    Ok {| t0 := match t0 l with None => None | Some t => Some (t + inject_Z lo / rate l)%Q end;
          rate := if 1 <? st then (rate l / inject_Z st)%Q else rate l;
          len := range_len lo hi st |} lo st
  end.

Definition step (l : ledger) (o : op) : res :=
  match o with
  | OSlice a b c => time_slice l a b c
  | OFastLen => match prev_fast_len (len l) with
                | Some k => time_slice l None (Some k) None
                | None => Err 9 end
  | OShiftCrop start stop => time_slice l (Some start) (Some (Z.max start (len l + stop))) None
  | OSnippet t n => if (n <? 0) || (t <? 0) || (len l <? t + n) then Err 1
                    else time_slice l (Some t) (Some (t + n)) None
  | ODedispCrop start stop => time_slice l (Some start) (Some stop) None
  | OIncohCrop cb nout =>
      if (cb <? 0) || (nout <? 0) || (len l <? cb + nout) then Err 1
      else Ok {| t0 := match t0 l with None => None | Some t => Some (t + inject_Z cb / rate l)%Q end;
                 rate := rate l; len := nout |} cb 1
  end.

(* pipelines, with composed provenance *)
Fixpoint run (l : ledger) (ops : list op) : res :=
  match ops with
  | [] => Ok l 0 1
  | o :: rest =>
    match step l o with
    | Err e => Err e
    | Ok l1 off1 st1 =>
      match run l1 rest with
      | Err e => Err e
      | Ok l2 off2 st2 => Ok l2 (off1 + st1 * off2) (st1 * st2)
      end
    end
  end.

(* ---------- what the harness observes on a returned signal ---------- *)
Record obs := {
  o_len : Z; o_t0 : option Q; o_rate : Q; o_stop : option Q; o_dt : Q; o_tlen : Q;
  o_first : option Z;        (* input index of output sample 0, read back from index-coded data *)
  o_stride : option Z;       (* input index distance of consecutive output samples, idem *)
  o_contains : list (Q * bool)   (* probes (t, contains(t)) *)
}.

Definition obs_of_model (l' : ledger) (off stride : Z) (probes : list Q) : obs :=
  {| o_len := len l'; o_t0 := t0 l'; o_rate := rate l'; o_stop := stop_time l'; o_dt := dt_of l';
     o_tlen := time_length l';
     o_first := if 0 <? len l' then Some off else None;
     o_stride := if 1 <? len l' then Some stride else None;
     o_contains := map (fun t => (t, contains l' t)) probes |}.

Local Open Scope Q_scope.
Definition Qclose (tol a b : Q) : bool := Qle_bool (Qabs (a - b)) tol.
Definition oQclose (tol : Q) (a b : option Q) : bool :=
  match a, b with Some x, Some y => Qclose tol x y | None, None => true | _, _ => false end.

(* The property C01 as an executable predicate over (input ledger, observation).  Result = bit mask of
   violated clauses, 0 = holds.  ttol: absolute time tolerance (days if times are in days), rtol:
   relative tolerance for rates/durations; both only absorb float rounding of the implementation. *)
Definition C01_ok (ttol rtol : Q) (lin : ledger) (o : obs) : Z :=
  let b1 := match o_t0 o, t0 lin with None, None => true | Some _, Some _ => true | _, _ => false end in
  let b2 := match o_t0 o, t0 lin, o_first o with
            | Some t', Some t, Some off => Qclose ttol t' (t + inject_Z off / rate lin)
            | _, _, _ => true end in
  let b4 := match o_stride o with
            | Some s => Qclose (rtol * rate lin) (o_rate o) (rate lin / inject_Z s)
            | None => true end in
  let b8 := match o_t0 o with
            | Some t' => oQclose ttol (o_stop o) (Some (t' + inject_Z (o_len o) / o_rate o))
            | None => match o_stop o with None => true | _ => false end end in
  let b16 := forallb (fun tb : Q * bool =>
               let (t, b) := tb in
               match o_t0 o, o_stop o with
               | Some a, Some z =>
                 if (o_len o =? 0)%Z then (if Qclose ttol t a then true else negb b)   (* empty interval: nothing inside; at the coincident edges Time rounding decides *)
                 else if Qeq_bool t a then b                           (* the start instant itself is inside *)
                 else if Qeq_bool t z then negb b                      (* the stop instant itself is outside *)
                 else if Qclose ttol t a || Qclose ttol t z then true  (* within rounding of an edge: unconstrained *)
                 else Bool.eqb b (Qle_bool a t && negb (Qle_bool z t))
               | _, _ => negb b
               end) (o_contains o) in
  let b32 := Qclose (rtol / o_rate o) (o_dt o) (1 / o_rate o) &&
             Qclose (rtol * inject_Z (o_len o) / o_rate o) (o_tlen o) (inject_Z (o_len o) / o_rate o) in
  ((if b1 then 0 else 1) + (if b2 then 0 else 2) + (if b4 then 0 else 4) + (if b8 then 0 else 8) +
  (if b16 then 0 else 16) + (if b32 then 0 else 32))%Z.

(* model-vs-implementation comparison of one observation (correspondence): bit mask of differences *)
Definition obs_diff (ttol rtol : Q) (m o : obs) : Z :=
  ((if (o_len m =? o_len o)%Z then 0 else 1) +
  (if oQclose ttol (o_t0 m) (o_t0 o) then 0 else 2) +
  (if Qclose (rtol * o_rate m) (o_rate m) (o_rate o) then 0 else 4) +
  (if oQclose ttol (o_stop m) (o_stop o) then 0 else 8) +
  (match o_first m, o_first o with Some a, Some b => if (a =? b)%Z then 0 else 16 | None, None => 0 | _, _ => 16 end) +
  (match o_stride m, o_stride o with Some a, Some b => if (a =? b)%Z then 0 else 32 | None, None => 0 | _, _ => 32 end))%Z.
