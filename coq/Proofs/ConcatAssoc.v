(* Proofs/ConcatAssoc.v -- C10: concatenation along time is associative: joining the result of a first concatenation with further
   pieces gives the same outcome (same error, or the same class / length / rate / start time / labels) as joining all pieces at once. *)
From Coq Require Import ZArith QArith Qabs Lia Lqa List Bool.
From PB Require Import Lib.PySlice Model.Ledger Model.Band Model.Concat Proofs.BandProofs Proofs.ConcatProofs Proofs.ConcatMore.
Import ListNotations.
Open Scope Z_scope.

Definition oq_eq (a b : option Q) : Prop :=
  match a, b with Some x, Some y => (x == y)%Q | None, None => True | _, _ => False end.
Definition sig_eq (s1 s2 : sig) : Prop :=
  s_cls s1 = s_cls s2 /\ len (s_led s1) = len (s_led s2) /\ rate (s_led s1) = rate (s_led s2) /\
  oq_eq (t0 (s_led s1)) (t0 (s_led s2)) /\ band_labels_eq (s_band s1) (s_band s2).
Definition cres_eq (r1 r2 : cres) : Prop :=
  match r1, r2 with COk a, COk b => sig_eq a b | CErr e1, CErr e2 => e1 = e2 | _, _ => False end.

Lemma close_abs_compat eps a a' t : (a == a')%Q -> close_abs eps a t = close_abs eps a' t.
Proof. intros E. unfold close_abs. rewrite E. reflexivity. Qed.

Lemma scan_app eps r : forall ps qs ref n,
  scan eps r ref n (ps ++ qs) =
  match scan eps r ref n ps with Some ref' => scan eps r ref' (n + total_len ps) qs | None => None end.
Proof.
  induction ps as [|p ps IH]; intros qs ref n; cbn [app scan total_len fold_right].
  - rewrite Z.add_0_r. reflexivity.
  - fold (total_len ps). replace (n + (len p + total_len ps)) with ((n + len p) + total_len ps) by ring.
    destruct (t0 p) as [t|]; [destruct ref as [rf|]|]; try apply IH.
    destruct (close_abs eps _ t); [apply IH|reflexivity].
Qed.

(* the loop is insensitive to the representation of the reference *)
Lemma scan_compat eps r : forall ps rf rf' n, (rf == rf')%Q ->
  (scan eps r (Some rf) n ps = None /\ scan eps r (Some rf') n ps = None) \/
  (scan eps r (Some rf) n ps = Some (Some rf) /\ scan eps r (Some rf') n ps = Some (Some rf')).
Proof.
  induction ps as [|p ps IH]; intros rf rf' n E; cbn [scan]; [right; split; reflexivity|].
  destruct (t0 p) as [t|]; [|apply IH; exact E].
  rewrite (close_abs_compat eps (rf + inject_Z n / r) (rf' + inject_Z n / r) t) by (rewrite E; reflexivity).
  destruct (close_abs eps _ t); [apply IH; exact E|left; split; reflexivity].
Qed.

Lemma all_close_abs_compat tol : forall xs xs' ys ys', Forall2 Qeq xs xs' -> Forall2 Qeq ys ys' ->
  all_close_abs tol xs ys = all_close_abs tol xs' ys'.
Proof.
  induction xs as [|x xs IH]; intros xs' ys ys' Hx Hy; inversion Hx; subst; inversion Hy; subst; cbn [all_close_abs]; try reflexivity.
  match goal with H1 : (x == _)%Q, H2 : (_ == _)%Q |- _ => unfold close_abs; rewrite H1, H2 end.
  f_equal. apply IH; assumption.
Qed.
Lemma labels_Forall2 b b' : nchan b = nchan b' -> (forall j, (label b j == label b' j)%Q) -> Forall2 Qeq (labels b) (labels b').
Proof.
  intros Hn Hl. unfold labels. rewrite <- Hn. induction (seq 0 (Z.to_nat (nchan b))) as [|i l IH]; cbn [map]; constructor; [apply Hl|exact IH].
Qed.
Lemma Forall2_Qeq_refl xs : Forall2 Qeq xs xs.
Proof. induction xs; constructor; [reflexivity|assumption]. Qed.

Definition recentred (b0 : band) : band := mk_band ((label b0 0 + label b0 (nchan b0 - 1)) / 2)%Q (bw b0) (nchan b0) 1.
Lemma recentred_labels b0 : Forall2 Qeq (labels (recentred b0)) (labels b0).
Proof. apply labels_Forall2; [reflexivity|]. intros j. apply recentre_labels. Qed.

Lemma bands_of_app_eq : forall ps qs, bands_of (ps ++ qs) =
  match bands_of ps, bands_of qs with Some a, Some b => Some (a ++ b) | _, _ => None end.
Proof.
  induction ps as [|p ps IH]; intros qs; cbn [app bands_of].
  - destruct (bands_of qs); reflexivity.
  - rewrite IH. destruct (s_band p); [|reflexivity]. destruct (bands_of ps); [|reflexivity]. destruct (bands_of qs); reflexivity.
Qed.

Theorem concat_assoc_left eps rt A B sA : concat eps rt 0 A = COk sA ->
  cres_eq (concat eps rt 0 (A ++ B)) (concat eps rt 0 (sA :: B)).
Proof.
  intros H. destruct A as [|a0 A']; [discriminate|].
  destruct (concat_ok_unfold _ _ _ _ _ _ H) as (C1 & C2 & C3 & C4 & C5 & C6 & _ & C8).
  unfold time_check in C3. change (0 =? 0) with true in C3, C6. cbv iota in C3, C6.
  set (A := a0 :: A') in *.
  assert (Rself : close_rel rt (rate (s_led a0)) (rate (s_led a0)) = true).
  { rewrite forallb_forall in C2. apply (C2 a0). left. reflexivity. }
  unfold concat at 1. change (A ++ B) with (a0 :: (A' ++ B)). cbv iota beta. change (a0 :: (A' ++ B)) with (A ++ B).
  unfold concat. cbv iota beta.
  rewrite !forallb_app, C1, C2. cbn [forallb andb]. rewrite C4, C5, (Z.eqb_refl (s_cls a0)), Rself. cbn [andb].
  destruct (forallb (fun p => s_cls p =? s_cls a0) B); cbn [negb]; [|exact eq_refl].
  destruct (forallb (fun p => close_rel rt (rate (s_led a0)) (rate (s_led p))) B); cbn [negb]; [|exact eq_refl].
  change (0 =? 0) with true. cbv iota. cbn [andb negb].
  rewrite map_app, scan_app, C3. cbn [map scan]. rewrite total_len_app, <- C6, !Z.add_0_l.
  (* the two scans over B *)
  assert (HS : match t0 (s_led sA) with
               | Some t => (scan eps (rate (s_led a0)) (Some t) (len (s_led sA)) (map s_led B) = None /\
                            scan eps (rate (s_led a0)) (Some (t - inject_Z 0 / rate (s_led a0))%Q) (len (s_led sA)) (map s_led B) = None) \/
                           (scan eps (rate (s_led a0)) (Some t) (len (s_led sA)) (map s_led B) = Some (Some t) /\
                            scan eps (rate (s_led a0)) (Some (t - inject_Z 0 / rate (s_led a0))%Q) (len (s_led sA)) (map s_led B) = Some (Some (t - inject_Z 0 / rate (s_led a0))%Q))
               | None => True end).
  { destruct (t0 (s_led sA)) as [t|]; [|exact I]. apply scan_compat. unfold Qdiv. change (inject_Z 0) with 0%Q. ring. }
  assert (Hband : forall ref ref', oq_eq ref ref' ->
    cres_eq
      (match s_band a0 with
       | None => COk {| s_cls := s_cls a0; s_led := {| t0 := ref; rate := rate (s_led a0); len := len (s_led sA) + total_len (map s_led B) |}; s_band := None |}
       | Some b0 =>
         match bands_of (A ++ B) with
         | None => CErr 4
         | Some bs =>
           if negb (forallb (fun b => close_rel rt (bw b0) (bw b)) bs) then CErr 1 else
           if forallb (fun b => all_close_abs (rt * bw b0) (labels b0) (labels b)) bs then
             COk {| s_cls := s_cls a0; s_led := {| t0 := ref; rate := rate (s_led a0); len := len (s_led sA) + total_len (map s_led B) |};
                    s_band := Some (mk_band ((label b0 0 + label b0 (nchan b0 - 1)) / 2)%Q (bw b0) (nchan b0) 1) |}
           else CErr 1
         end
       end)
      (match s_band sA with
       | None => COk {| s_cls := s_cls a0; s_led := {| t0 := ref'; rate := rate (s_led a0); len := len (s_led sA) + total_len (map s_led B) |}; s_band := None |}
       | Some b0 =>
         match bands_of (sA :: B) with
         | None => CErr 4
         | Some bs =>
           if negb (forallb (fun b => close_rel rt (bw b0) (bw b)) bs) then CErr 1 else
           if forallb (fun b => all_close_abs (rt * bw b0) (labels b0) (labels b)) bs then
             COk {| s_cls := s_cls a0; s_led := {| t0 := ref'; rate := rate (s_led a0); len := len (s_led sA) + total_len (map s_led B) |};
                    s_band := Some (mk_band ((label b0 0 + label b0 (nchan b0 - 1)) / 2)%Q (bw b0) (nchan b0) 1) |}
           else CErr 1
         end
       end)).
  { intros ref ref' Hre. destruct (s_band a0) as [b0|] eqn:Eb0.
    - destruct C8 as (bsA & EA & CbwA & _ & C8b). destruct (C8b ltac:(discriminate)) as [ClA EsA]. rewrite EsA.
      fold (recentred b0). cbn [bands_of]. rewrite EsA. fold (recentred b0). rewrite bands_of_app_eq, EA.
      destruct (bands_of B) as [bsB|]; [|exact eq_refl].
      rewrite !forallb_app, CbwA, ClA. cbn [forallb andb]. change (bw (recentred b0)) with (bw b0).
      assert (Hb0 : In b0 bsA). { unfold A in EA. cbn [bands_of] in EA. rewrite Eb0 in EA. destruct (bands_of A'); [|discriminate]. injection EA as <-. left. reflexivity. }
      rewrite forallb_forall in CbwA. rewrite (CbwA b0 Hb0). cbn [andb].
      destruct (forallb (fun b => close_rel rt (bw b0) (bw b)) bsB); cbn [negb]; [|exact eq_refl].
      rewrite forallb_forall in ClA.
      rewrite (all_close_abs_compat _ (labels (recentred b0)) (labels b0) (labels (recentred b0)) (labels b0) (recentred_labels b0) (recentred_labels b0)).
      rewrite (ClA b0 Hb0). cbn [andb].
      assert (EqF : forallb (fun b => all_close_abs (rt * bw b0) (labels (recentred b0)) (labels b)) bsB =
                    forallb (fun b => all_close_abs (rt * bw b0) (labels b0) (labels b)) bsB).
      { clear. induction bsB as [|b bs IH]; [reflexivity|]. cbn [forallb]. rewrite IH.
        rewrite (all_close_abs_compat _ (labels (recentred b0)) (labels b0) (labels b) (labels b) (recentred_labels b0) (Forall2_Qeq_refl _)). reflexivity. }
      rewrite EqF. destruct (forallb (fun b => all_close_abs (rt * bw b0) (labels b0) (labels b)) bsB); [|exact eq_refl].
      cbn [cres_eq]. unfold sig_eq. cbn [s_cls s_led s_band len rate t0]. repeat split; try reflexivity; try exact Hre.
      intros j. fold (recentred b0). fold (recentred (recentred b0)). rewrite (recentre_labels (recentred b0) j). reflexivity.
    - destruct C8 as [_ EsA]. rewrite EsA. cbn [cres_eq]. unfold sig_eq. cbn [s_cls s_led s_band len rate t0]. repeat split; try reflexivity; exact Hre.
  }
  destruct (t0 (s_led sA)) as [t|] eqn:EtA.
  - destruct HS as [[S1 S2]|[S1 S2]]; rewrite S1, S2; [exact eq_refl|].
    apply Hband. cbn [oq_eq]. unfold Qdiv. change (inject_Z 0) with 0%Q. ring.
  - destruct (scan eps (rate (s_led a0)) None (len (s_led sA)) (map s_led B)) as [ref|]; [|exact eq_refl].
    apply Hband. destruct ref; cbn [oq_eq]; [reflexivity|exact I].
Qed.
