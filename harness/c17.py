"""C17: elementwise NumPy operations on signals equal the same operations on their data.
(P) Props/C17.v; (T) Model/Ufunc.v evaluated by vm_compute on the operand pattern of every case (which operand is a signal of which
class, what is passed as out, which ufunc method): the predicted kind of every result (refused / new signal labelled like operand k /
the given out object) is compared with what NumPy + pulsarbat returned; (M) values equal the same ufunc on the unwrapped data
(bit-identical), type and every metadata attribute equal those of the first signal operand, identity of returned out objects,
TypeError for reductions / accumulate / outer / at / matmul, np.asarray / np.array yield the data."""
import numpy as np
import astropy.units as u
import dask.array as da
import pulsarbat as pb
from harness import exact as X
from harness.common import zlit, listlit

VFILES = ['Model/Ufunc.v', 'Proofs/UfuncProofs.v', 'Gen/GenUfunc.v', 'Proofs/UfuncGen.v', 'Props/C17.v']
ATTRS = ('sample_rate', 'start_time', 'center_freq', 'chan_bw', 'freq_align', 'pol_type', 'meta')
CLS_ID = {'Signal': 0, 'RadioSignal': 1, 'IntensitySignal': 2, 'FullStokesSignal': 3, 'BasebandSignal': 4, 'DualPolarizationSignal': 5}

HEADER = '''From Coq Require Import ZArith List Bool. Import ListNotations.
From PB Require Import Model.Ufunc.
(* arrays are abstracted to a token; the ufunc yields nout tokens *)
Definition S (id cls : nat) : operand nat := OSig nat {| s_id := id; s_cls := cls; s_meta := id; s_data := id |}.
Definition Arr : operand nat := OArr nat 0.
Definition meth (k : nat) : method := match k with 0 => MCall | 1 => MReduce | 2 => MAccumulate | 3 => MOuter | 4 => MAt | _ => MReduceat end.
(* code per result: 1000 + id of the signal whose label the NEW signal carries; 2000 + id of the out signal returned; 3000 out array;
   whole call refused: [9] *)
Definition code (nout : nat) (m : nat) (mm : bool) (inputs : list (operand nat)) (out : list (option (operand nat))) : list Z :=
  match array_ufunc nat (fun _ => repeat 77 nout) (meth m) mm inputs out with
  | NotImplemented _ => [9%Z]
  | Results _ rs => map (fun r => match r with
                                  | RSig _ s => if Nat.eqb (s_id nat s) 0 then (1000 + Z.of_nat (s_meta nat s))%Z else (2000 + Z.of_nat (s_id nat s))%Z
                                  | RArr _ _ => 3000%Z end) rs
  end.
Fixpoint leqb (a b : list Z) : bool := match a, b with [], [] => true | x :: a', y :: b' => (x =? y)%Z && leqb a' b' | _, _ => false end.
Definition chk (nout m : nat) (mm : bool) (inputs : list (operand nat)) (out : list (option (operand nat))) (obs : list Z) : Z :=
  if leqb (code nout m mm inputs out) obs then 0%Z else 1%Z.
'''

UFUNCS = [getattr(np, n) for n in dir(np) if isinstance(getattr(np, n), np.ufunc)]
UFUNCS = [f for f in UFUNCS if f.nin <= 2 and f.nout <= 2 and f is not np.matmul and f.signature is None]


def same_meta(a, b):
    for k in ATTRS:
        if hasattr(a, k) != hasattr(b, k):
            return k
        if hasattr(a, k):
            x, y = getattr(a, k), getattr(b, k)
            if (x is None) != (y is None):
                return k
            if x is not None and not np.all(x == y):
                return k
    return None


def arr_equal(a, b):
    a, b = np.asarray(a), np.asarray(b)
    if a.shape != b.shape or a.dtype != b.dtype:
        return False
    if a.dtype.kind in 'fc':
        return bool(np.array_equal(a, b, equal_nan=True))
    return bool(np.array_equal(a, b))


def make(rng, nprng, cls, L, ss, dask=False):
    cplx = cls in ('BasebandSignal', 'DualPolarizationSignal') or (cls == 'Signal' and rng.random() < 0.3)
    single = rng.random() < 0.3
    if cls == 'Signal' and rng.random() < 0.2 and not cplx:
        data = nprng.integers(1, 9, size=(L,) + ss).astype(rng.choice([np.int32, np.int64, np.uint8]))
    else:
        data = nprng.uniform(0.5, 3.0, size=(L,) + ss)
        if cplx:
            data = data + 1j * nprng.uniform(0.5, 3.0, size=(L,) + ss)
            data = data.astype(np.complex64 if single else np.complex128)
        else:
            data = data.astype(np.float32 if single else np.float64)
    if dask:
        data = da.from_array(data, chunks=(2,) + ss)
    z = X.make_signal(rng, cls, L, sshape=ss, data=data)
    z.meta = {'tag': rng.randint(0, 10 ** 6)}
    return z


def run(ctx):
    rng = ctx.rng
    nprng = np.random.default_rng(ctx.seed + 17)
    ctx.rule = ('every NumPy ufunc with <= 2 inputs and <= 2 outputs that accepts the dtype; operand arrangements: signal alone, '
                'signal with array / Python scalar / NumPy scalar / Quantity / second signal of the same or another class, both orders; all six '
                'classes (results their dtype set admits), NumPy and Dask data; out= given as signal / array / tuple with None; in-place '
                'operator chains; reduce / accumulate / outer / at / matmul; np.asarray / np.array with and without dtype. '
                'non-trivial: all; distinct by (ufunc, arrangement, classes, dtype, out form).')
    ctx.trusted = ['translator T10 translate/py_ufunc2coq.py (refusal test, reference signal, wrapping rule; other statements pinned)', 'Coq 8.16.1 kernel (axiom-free)', 'NumPy override protocol: some operand\'s __array_ufunc__ is called with the inputs in '
                   'their original order (the model does not depend on which one)']
    ctx.assumptions = ['values are compared bit for bit with the ufunc applied to .data by NumPy itself (the ufunc kernels are not modelled)']
    built = ctx.build(['Props/C17.vo'])
    ctx.count_obligations(VFILES)
    if built:
        ctx.assumptions_of('Props/C17.v', allowed=set())
    items, meta = [], []
    NC = 700 if ctx.tier == 'quick' else 12000
    for c in range(NC):
        f = rng.choice(UFUNCS)
        cls = rng.choice(X.CLASSES)
        L = rng.choice([2, 4, 6])
        ss = X.sample_shape(rng, cls)
        use_dask = rng.random() < 0.15
        z = make(rng, nprng, cls, L, ss, use_dask)
        arrangement = rng.choice(['sig'] if f.nin == 1 else ['sig_arr', 'arr_sig', 'sig_scalar', 'scalar_sig', 'sig_npscalar', 'sig_sig',
                                                             'sig_sig_other', 'sig_quantity', 'quantity_sig', 'sig_bcast'])
        ops, pattern = [z], [('S', 1, CLS_ID[cls])]
        other = None
        if f.nin == 2:
            if arrangement in ('sig_arr', 'arr_sig'):
                other = np.asarray(nprng.uniform(0.5, 3.0, size=(L,) + ss)).astype(z.dtype if z.dtype.kind != 'c' or rng.random() < 0.5 else np.float64)
            elif arrangement in ('sig_scalar', 'scalar_sig'):
                other = rng.choice([2, 2.5, 3])
            elif arrangement == 'sig_npscalar':
                other = rng.choice([np.float64(1.5), np.int64(2), np.float32(0.5)])
            elif arrangement == 'sig_sig':
                other = make(rng, nprng, cls, L, ss, use_dask)
            elif arrangement == 'sig_sig_other':
                oc = rng.choice([k for k in X.CLASSES if k != cls])
                try:
                    other = make(rng, nprng, oc, L, ss if len(ss) else ())
                    if other.shape != z.shape:
                        other = make(rng, nprng, 'Signal', L, ss, use_dask)
                except Exception:
                    other = make(rng, nprng, 'Signal', L, ss, use_dask)
            elif arrangement in ('sig_quantity', 'quantity_sig'):
                other = rng.choice([2.0, 0.5]) * u.dimensionless_unscaled
            else:
                other = np.asarray(nprng.uniform(0.5, 3.0, size=ss[-1:] if ss else ()))
            if arrangement in ('arr_sig', 'scalar_sig', 'quantity_sig'):
                ops = [other, z]
                pattern = [('A',), ('S', 1, CLS_ID[cls])]
            else:
                ops = [z, other]
                pattern = [('S', 1, CLS_ID[cls])] + ([('S', 2, CLS_ID[type(other).__name__])] if isinstance(other, pb.Signal) else [('A',)])
        raw = [o.data if isinstance(o, pb.Signal) else o for o in ops]
        raw_np = [np.asarray(r) if isinstance(r, da.Array) else r for r in raw]
        # is the ufunc valid for these data?
        try:
            with np.errstate(all='ignore'):
                want = f(*raw_np)
        except Exception:
            ctx.count('ufunc_not_applicable')
            continue
        want = want if isinstance(want, tuple) else (want,)
        if any(isinstance(w, u.Quantity) for w in want) and arrangement in ('sig_quantity', 'quantity_sig'):
            want = tuple(np.asarray(w.value) if isinstance(w, u.Quantity) else w for w in want)
        # out forms
        out_form = rng.choice(['none', 'none', 'none', 'signal', 'array', 'inplace_op']) if not (use_dask or 'quantity' in arrangement) else 'none'
        first = next(o for o in ops if isinstance(o, pb.Signal))
        out_objs, out_pat = None, [None] * f.nout
        kw = {}
        if out_form in ('signal', 'array'):
            outs = []
            for k, w in enumerate(want):
                if f.nout == 2 and k == 1 and rng.random() < 0.5:
                    outs.append(None)
                elif out_form == 'signal':
                    try:
                        tgt = pb.Signal(np.zeros(np.shape(w), dtype=np.asarray(w).dtype), sample_rate=7 * u.Hz, meta={'tag': 'out%d' % k})
                    except Exception:
                        tgt = None
                    outs.append(tgt)
                    if tgt is not None:
                        out_pat[k] = ('S', 10 + k, 0)
                else:
                    outs.append(np.zeros(np.shape(w), dtype=np.asarray(w).dtype))
                    out_pat[k] = ('A',)
            if all(o is None for o in outs):
                out_form = 'none'
            else:
                out_objs = outs
                kw['out'] = tuple(outs) if f.nout == 2 else (outs[0],)
                # further keywords together with out=: a masked update (where=) must leave the unselected samples of the target
                # alone, exactly as the same call on the underlying arrays does
                if all(o is not None for o in outs) and rng.random() < 0.5:
                    mask = nprng.random(np.shape(want[0])) < 0.5
                    kw['where'] = mask
                    try:
                        with np.errstate(all='ignore'):
                            w2 = f(*raw_np, out=tuple(np.zeros(np.shape(w), dtype=np.asarray(w).dtype) for w in want), where=mask)
                        want = w2 if isinstance(w2, tuple) else (w2,)
                        out_form += '+where'
                    except Exception:
                        del kw['where']
        inp = dict(ufunc=f.__name__, cls=cls, arrangement=arrangement, dtype=str(z.dtype), dask=use_dask, out=out_form, shape=list(z.shape))
        ctx.seen(inp); ctx.count('arr:' + arrangement); ctx.count('out:' + out_form); ctx.count('cls:' + cls)
        # in-place operator chains
        if out_form == 'inplace_op' and f in (np.add, np.multiply, np.subtract, np.true_divide) and isinstance(ops[0], pb.Signal) \
                and np.asarray(want[0]).dtype == z.dtype:
            tgt = ops[0]
            ident, before_meta = id(tgt), {k: getattr(tgt, k) for k in ATTRS if hasattr(tgt, k)}
            expect = np.array(raw_np[0], copy=True)
            try:
                for rep in range(rng.randint(1, 4)):
                    oth = ops[1]
                    if f is np.add:
                        tgt += oth
                    elif f is np.multiply:
                        tgt *= oth
                    elif f is np.subtract:
                        tgt -= oth
                    else:
                        tgt /= oth
                    expect = f(expect, raw_np[1])
                if id(tgt) != ident or same_meta(tgt, type('M', (), before_meta)()) or not arr_equal(tgt.data, expect):
                    ctx.fail('inplace_chain', inp, impl=dict(same_object=id(tgt) == ident, values=arr_equal(tgt.data, expect)))
            except Exception as e:
                ctx.fail('inplace_chain_raised', inp, impl=repr(e))
            continue
        try:
            with np.errstate(all='ignore'):
                res = f(*ops, **kw)
        except Exception as e:
            # a class whose dtype set does not admit the result refuses construction: allowed (ValueError)
            if isinstance(e, ValueError) and 'dtype' in str(e).lower() and not kw:
                ctx.count('class_rejects_result_dtype')
                continue
            ctx.fail('ufunc_raised', inp, impl=repr(e))
            continue
        res = res if isinstance(res, tuple) else (res,)
        if len(res) != f.nout:
            ctx.fail('number_of_results', inp, impl=len(res))
            continue
        obs = []
        bad = False
        for k, (r, w) in enumerate(zip(res, want)):
            o = out_objs[k] if out_objs else None
            if o is not None:
                if r is not o:
                    ctx.fail('out_object_not_returned', inp, impl=type(r).__name__, model='out[%d]' % k)
                    bad = True
                    break
                if isinstance(o, pb.Signal):
                    obs.append(2000 + 10 + k)
                    if o.meta != {'tag': 'out%d' % k} or o.sample_rate != 7 * u.Hz:
                        ctx.fail('out_signal_metadata_changed', inp)
                        bad = True
                        break
                    val = o.data
                else:
                    obs.append(3000)
                    val = o
            else:
                if not isinstance(r, pb.Signal):
                    ctx.fail('result_not_a_signal', inp, impl=type(r).__name__)
                    bad = True
                    break
                if type(r) is not type(first):
                    ctx.fail('result_class', inp, impl=type(r).__name__, model=type(first).__name__)
                    bad = True
                    break
                k_bad = same_meta(r, first)
                label = 1000 + (1 if same_meta(r, z) is None and type(r) is type(z) else (2 if isinstance(other, pb.Signal) and same_meta(r, other) is None else 0))
                obs.append(label)
                if k_bad:
                    ctx.fail('result_metadata_not_of_first_signal', inp, impl=k_bad)
                    bad = True
                    break
                if use_dask and not isinstance(r.data, da.Array):
                    ctx.fail('dask_result_not_lazy', inp)
                    bad = True
                    break
                val = r.data
            val = np.asarray(val.compute() if isinstance(val, da.Array) else val)
            wv = np.asarray(w)
            if o is None and val.dtype != wv.dtype and val.dtype in type(first)._req_dtype and np.can_cast(wv.dtype, val.dtype, 'safe'):
                # the class admits the result only through its safe cast (C16): same values, class dtype
                ctx.count('result_safe_cast_to_class_dtype')
                wv = wv.astype(val.dtype)
            if not arr_equal(val, wv):
                ctx.fail('values_differ_from_ufunc_on_data', inp, impl=str(val.reshape(-1)[:3]), model=str(wv.reshape(-1)[:3]))
                bad = True
                break
        if bad:
            continue
        ops_l = '[' + '; '.join(('Arr' if p[0] == 'A' else f'S {p[1]} {p[2]}') for p in pattern) + ']'
        out_l = '[' + '; '.join('None' if p is None else ('Some Arr' if p[0] == 'A' else f'Some (S {p[1]} {p[2]})') for p in out_pat) + ']'
        items.append(f'chk {f.nout} 0 false {ops_l} {out_l} {listlit(obs, lambda v: str(v) + "%Z")}')
        meta.append(dict(inp=inp, impl=obs))

    # refused forms
    z = make(rng, nprng, 'Signal', 4, (2,))
    zb = make(rng, nprng, 'BasebandSignal', 4, (2,))
    refused = [('reduce', 1, lambda s: np.add.reduce(s)), ('accumulate', 2, lambda s: np.add.accumulate(s)), ('outer', 3, lambda s: np.add.outer(s, s)),
               ('at', 4, lambda s: np.add.at(s, 0, 1)), ('reduceat', 5, lambda s: np.add.reduceat(s, [0, 2])), ('sum', 1, lambda s: np.sum(s)),
               ('matmul', 0, lambda s: s @ np.ones((s.shape[1], 2))), ('multiply.reduce', 1, lambda s: np.multiply.reduce(s, axis=1)),
               ('maximum.accumulate', 2, lambda s: np.maximum.accumulate(s)), ('rmatmul', 0, lambda s: np.ones((2, s.shape[0])) @ s)]
    for s in (z, zb):
        for name, mk, fn in refused:
            inp = dict(op='refused_form', form=name, cls=type(s).__name__)
            ctx.seen(inp); ctx.count('refused:' + name)
            try:
                r = fn(s)
                ctx.fail('reduction_like_form_not_refused', inp, impl=type(r).__name__)
                obs = [0]
            except TypeError:
                obs = [9]
            except Exception as e:
                ctx.fail('refused_form_wrong_error', inp, impl=repr(e))
                obs = [8]
            items.append(f'chk 1 {mk} {"true" if "matmul" in name else "false"} [S 1 {CLS_ID[type(s).__name__]}] [None] {listlit(obs, lambda v: str(v) + "%Z")}')
            meta.append(dict(inp=inp, impl=obs))
    # conversions
    for c in range(40 if ctx.tier == 'quick' else 400):
        cls = rng.choice(X.CLASSES)
        s = make(rng, nprng, cls, 4, X.sample_shape(rng, cls))
        dt = rng.choice([None, np.complex128, np.float64 if s.dtype.kind != 'c' else np.complex64, s.dtype])
        inp = dict(op='asarray', cls=cls, dtype=str(s.dtype), to=str(dt))
        ctx.seen(inp); ctx.count('asarray')
        try:
            a1 = np.asarray(s) if dt is None else np.asarray(s, dtype=dt)
            a2 = np.array(s) if dt is None else np.array(s, dtype=dt)
            wantd = np.asarray(s.data) if dt is None else np.asarray(s.data, dtype=dt)
            if not (arr_equal(a1, wantd) and arr_equal(a2, wantd)) or len(s) != s.data.shape[0]:
                ctx.fail('asarray_is_not_the_data', inp)
            if dt is None and not np.shares_memory(a1, s.data):
                ctx.count('asarray_copies')
        except Exception as e:
            ctx.fail('asarray_raised', inp, impl=repr(e))

    # --- a signal that takes part ONLY as a destination: f(array, array-or-scalar, out=signal) ---------------------------------
    # NumPy dispatches to Signal.__array_ufunc__ for a signal among the outputs too; the values must land in the given signal(s), which
    # are returned with their own metadata, exactly as when a signal is also among the inputs
    for c in range(max(40, NC // 8)):
        f = rng.choice(UFUNCS)
        L = rng.choice([2, 4, 6])
        ss = X.sample_shape(rng, 'Signal')
        a = np.asarray(nprng.uniform(0.5, 3.0, size=(L,) + ss))
        args = [a] if f.nin == 1 else [a, rng.choice([np.asarray(nprng.uniform(0.5, 3.0, size=(L,) + ss)), 2.5, np.float32(1.5)])]   # no Quantity: astropy's own override then decides (as in the main loop, where out= is not combined with Quantity operands)
        if f.nin == 2 and rng.random() < 0.3:
            args = [args[1], args[0]]
        rawargs = [x.value if isinstance(x, u.Quantity) else x for x in args]
        try:
            with np.errstate(all='ignore'):
                want = f(*rawargs)
        except Exception:
            continue
        want = want if isinstance(want, tuple) else (want,)
        tg = []
        for k, w in enumerate(want):
            if f.nout == 2 and k == 1 and rng.random() < 0.4:
                tg.append(None)
            else:
                tg.append(pb.Signal(np.zeros(np.shape(w), dtype=np.asarray(w).dtype), sample_rate=7 * u.Hz, meta={'tag': 'out%d' % k}))
        inp = dict(ufunc=f.__name__, arrangement='signal_only_as_out', nin=f.nin, partial=any(t is None for t in tg), shape=list(a.shape),
                   other=type(args[-1]).__name__)
        ctx.seen(inp); ctx.count('arr:signal_only_as_out')
        try:
            with np.errstate(all='ignore'):
                res = f(*args, out=tuple(tg))
        except Exception as e:
            ctx.fail('ufunc_with_signal_destination_raised', inp, impl=repr(e))
            continue
        res = res if isinstance(res, tuple) else (res,)
        for k, (r, w, t) in enumerate(zip(res, want, tg)):
            if t is not None:
                if r is not t:
                    ctx.fail('out_object_not_returned', inp, impl=type(r).__name__, model='out[%d]' % k)
                elif t.meta != {'tag': 'out%d' % k} or t.sample_rate != 7 * u.Hz:
                    ctx.fail('out_signal_metadata_changed', inp)
                elif not arr_equal(t.data, w):
                    ctx.fail('out_signal_values', inp)
            elif not arr_equal(r.data if isinstance(r, pb.Signal) else r, w):
                ctx.fail('free_output_values', inp)

    res = ctx.run_cases(HEADER, items, shard=max(60, len(items) // 16 + 1))
    if res is None:
        return
    for r, m in zip(res, meta):
        if r:
            ctx.mismatch('__array_ufunc__ model vs implementation (kind / label of results)', m['inp'], impl=m['impl'])
