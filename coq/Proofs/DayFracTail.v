(* Proofs/DayFracTail.v -- the common tail of day_frac (integer part, fraction, one-step correction) analysed on its own:
   df_tail s e is sound for ANY finite pair with |s| <= 2^52, |e| <= 1/2 - the form needed after the factor / divisor steps. *)
From Coq Require Import ZArith Reals Psatz Floats.
From Flocq Require Import Core BinarySingleNaN PrimFloat.
From PB Require Import Proofs.TwoSumExact Model.Phase2 Proofs.Floor Proofs.DayFrac Proofs.DayFrac3.
Open Scope R_scope.

Notation fexp := (FLT_exp (-1074) 53).
Notation rnd := (round radix2 fexp ZnearestE).

Inductive tail_eqs (S E D F : R) : Prop :=
| TE (d0 : Z) (ex0 fr0 f1 : R) (e1 : Z) (ex2 fr2 : R)
  (eq_d0 : d0 = Zfloor (rnd (S + / 2)))
  (eq_ex0 : ex0 = rnd (S - IZR d0))
  (eq_sum0 : ex0 + fr0 = S - IZR d0)
  (eq_f1 : f1 = rnd (fr0 + rnd (ex0 + E)))
  (eq_e1 : e1 = Zfloor (rnd (f1 + / 2)))
  (eq_D : D = rnd (IZR d0 + IZR e1))
  (eq_ex2 : ex2 = rnd (S - D))
  (eq_sum2 : ex2 + fr2 = S - D)
  (eq_F : F = rnd (fr2 + rnd (ex2 + E))).

Theorem df_tail_eqs (sum12 err12 : PrimFloat.float) :
  bnd sum12 54 -> bnd err12 55 ->
  let '(d, f) := df_tail0 sum12 err12 in
  fin d /\ fin f /\ tail_eqs (R_of sum12) (R_of err12) (R_of d) (R_of f).
Proof.
  intros Bs Be. unfold df_tail0.
  (* day0 = floor (sum12 + 0.5) *)
  destruct (add_b sum12 0.5%float 54 ltac:(lia) ltac:(lia) Bs (bnd_half 54 ltac:(lia))) as [Ea0 Ba0].
  destruct R_half as [Eh _]. rewrite Eh in Ea0.
  destruct (ffloor_b _ 55 ltac:(lia) Ba0) as [Ed0 Bd0]. rewrite Ea0 in Ed0.
  set (day0 := ffloor (sum12 + 0.5)%float) in *.
  destruct (opp_b day0 56 Bd0) as [Eo Bo].
  pose proof (two_sum_b sum12 (- day0)%float 56 ltac:(lia) ltac:(lia) (bnd_weaken _ 54 56 ltac:(lia) Bs) Bo) as H.
  destruct (Phase2.two_sum sum12 (- day0)%float) as [extra frac]. destruct H as (Bex & Bfr & Eex & Hsum0).
  rewrite Eo in Eex, Hsum0.
  (* frac1 = frac + (extra + err12) *)
  destruct (add_b extra err12 57 ltac:(lia) ltac:(lia) Bex (bnd_weaken _ 55 57 ltac:(lia) Be)) as [Et0 Bt0].
  destruct (add_b frac (extra + err12)%float 58 ltac:(lia) ltac:(lia) Bfr Bt0) as [Ef1 Bf1].
  rewrite Et0 in Ef1. set (frac1 := (frac + (extra + err12))%float) in *.
  (* excess *)
  destruct (add_b frac1 0.5%float 59 ltac:(lia) ltac:(lia) Bf1 (bnd_half 59 ltac:(lia))) as [Ea1 Ba1].
  rewrite Eh in Ea1.
  destruct (ffloor_b _ 60 ltac:(lia) Ba1) as [Ee1 Be1]. rewrite Ea1 in Ee1.
  set (excess := ffloor (frac1 + 0.5)%float) in *.
  (* day *)
  destruct (add_b day0 excess 61 ltac:(lia) ltac:(lia) (bnd_weaken _ 56 61 ltac:(lia) Bd0) Be1) as [ED BD].
  rewrite Ed0, Ee1 in ED. set (day := (day0 + excess)%float) in *.
  destruct (opp_b day 62 BD) as [Eo2 Bo2].
  pose proof (two_sum_b sum12 (- day)%float 62 ltac:(lia) ltac:(lia) (bnd_weaken _ 54 62 ltac:(lia) Bs) Bo2) as H.
  destruct (Phase2.two_sum sum12 (- day)%float) as [extra2 frac2]. destruct H as (Bex2 & Bfr2 & Eex2 & Hsum2).
  rewrite Eo2 in Eex2, Hsum2.
  destruct (add_b extra2 err12 63 ltac:(lia) ltac:(lia) Bex2 (bnd_weaken _ 55 63 ltac:(lia) Be)) as [Et2 Bt2].
  destruct (add_b frac2 (extra2 + err12)%float 64 ltac:(lia) ltac:(lia) Bfr2 Bt2) as [EF BF].
  rewrite Et2 in EF.
  split; [exact (proj1 BD)|]. split; [exact (proj1 BF)|].
  apply TE with (d0 := Zfloor (rnd (R_of sum12 + / 2)))
            (ex0 := R_of extra) (fr0 := R_of frac) (f1 := R_of frac1)
            (e1 := Zfloor (rnd (R_of frac1 + / 2))) (ex2 := R_of extra2) (fr2 := R_of frac2); try assumption; try reflexivity.
  - rewrite Eex, Ed0. reflexivity.
  - rewrite Hsum0, Ed0. reflexivity.
Qed.

Theorem tail_eqs_sound S E D F :
  tail_eqs S E D F -> Rabs S <= bpow radix2 52 -> Rabs E <= / 2 ->
  (exists k : Z, D = IZR k) /\
  Rabs (D + F - (S + E)) <= bpow radix2 (-53) /\
  Rabs F <= / 2 + bpow radix2 (-50).
Proof.
  intros [d0 ex0 fr0 f1 e1 ex2 fr2 eq_d0 eq_ex0 eq_sum0 eq_f1 eq_e1 eq_D eq_ex2 eq_sum2 eq_F] HS HE.
  set (V := S + E) in *. assert (eq_SE : S + E = V) by reflexivity.
  set (e53 := bpow radix2 (-53)).
  assert (P0 : 0 < e53) by apply bpow_gt_0.
  assert (P1 : e53 <= / 1024).
  { apply Rle_trans with (bpow radix2 (-10)); [apply bpow_le; lia|]. simpl. lra. }
  assert (P52 : bpow radix2 (-52) = 2 * e53) by (change (-52)%Z with (-53 + 1)%Z; apply bpow_S).
  assert (P51 : bpow radix2 (-51) = 4 * e53) by (change (-51)%Z with (-52 + 1)%Z; rewrite bpow_S, P52; ring).
  assert (P50 : bpow radix2 (-50) = 8 * e53) by (change (-50)%Z with (-51 + 1)%Z; rewrite bpow_S, P51; ring).
  assert (P54 : bpow radix2 (-54) = e53 / 2).
  { unfold e53. change (-53)%Z with (-54 + 1)%Z. rewrite bpow_S. lra. }
  assert (B51 : bpow radix2 51 = IZR (2^51)) by (simpl; lra).
  assert (B52 : bpow radix2 52 = 2 * bpow radix2 51) by (change 52%Z with (51 + 1)%Z; apply bpow_S).
  assert (B53 : bpow radix2 53 = 4 * bpow radix2 51) by (change 53%Z with (52 + 1)%Z; rewrite bpow_S, B52; ring).
  assert (Big : 1024 <= bpow radix2 51).
  { apply Rle_trans with (bpow radix2 10); [simpl; lra|apply bpow_le; lia]. }
  assert (b1 : bpow radix2 1 = 2) by (simpl; lra).
  assert (b0 : bpow radix2 0 = 1) by reflexivity.
  assert (bm1 : bpow radix2 (-1) = / 2) by (simpl; lra).
  assert (bm2 : bpow radix2 (-2) = / 4) by (simpl; lra).
  apply Rabs_le_inv in HS. apply Rabs_le_inv in HE.
  (* 2. first floor *)
  set (y := S - IZR d0) in *.
  assert (Hy : - 1 <= y < / 2).
  { destruct (floor_half S) as [U L]. { apply Rabs_le. rewrite B53. rewrite B52 in HS. lra. }
    cbv zeta in U, L. rewrite <- eq_d0 in U, L. fold y in U, L.
    assert (Rabs (rnd (S + / 2) - (S + / 2)) <= / 2).
    { rewrite <- bm1. apply (err_lt _ 53); [lia|]. apply Rabs_lt. rewrite B53. rewrite B52 in HS. lra. }
    lra. }
  (* 3. first fraction *)
  assert (Hfr0 : Rabs fr0 <= e53).
  { replace fr0 with (- (rnd y - y)) by (rewrite <- eq_ex0; lra). rewrite Rabs_Ropp.
    apply (err_lt y 1); [lia|]. apply Rabs_lt. rewrite b1. lra. }
  apply Rabs_le_inv in Hfr0.
  assert (Ht0 : Rabs (rnd (ex0 + E) - (ex0 + E)) <= e53).
  { apply (err_lt _ 1); [lia|]. apply Rabs_lt. rewrite b1. lra. }
  apply Rabs_le_inv in Ht0. set (t0 := rnd (ex0 + E)) in *.
  assert (Hf1 : Rabs (f1 - (fr0 + t0)) <= e53).
  { rewrite eq_f1. apply (err_lt _ 1); [lia|]. apply Rabs_lt. rewrite b1. lra. }
  apply Rabs_le_inv in Hf1.
  (* f1 = y + E + delta, |delta| <= 2 e53 *)
  (* 4. second floor *)
  set (z := f1 - IZR e1).
  assert (Hz : - / 2 - 2 * e53 <= z < / 2).
  { destruct (floor_half f1) as [U L]. { apply Rabs_le. rewrite B53. lra. }
    cbv zeta in U, L. rewrite <- eq_e1 in U, L. fold z in U, L.
    assert (Rabs (rnd (f1 + / 2) - (f1 + / 2)) <= 2 * e53).
    { rewrite <- P52. apply (err_lt _ 2); [lia|]. apply Rabs_lt. simpl. lra. }
    lra. }
  (* 5. D is the integer d0 + e1 *)
  assert (B52' : bpow radix2 52 = IZR (2^52)) by (simpl; lra).
  assert (Hd0 : (Z.abs d0 <= 2 ^ 52 + 1)%Z).
  { assert (IZR d0 <= IZR (2^52 + 1)) by (rewrite plus_IZR, <- B52'; unfold y in Hy; lra).
    assert (IZR (- 2^52 - 1) <= IZR d0) by (rewrite minus_IZR, opp_IZR, <- B52'; unfold y in Hy; lra).
    apply le_IZR in H, H0. lia. }
  assert (He1 : (Z.abs e1 <= 3)%Z).
  { assert (IZR e1 <= IZR 3) by (unfold z in Hz; simpl; lra).
    assert (IZR (-3) <= IZR e1) by (unfold z in Hz; simpl; lra).
    apply le_IZR in H, H0. lia. }
  assert (HD : D = IZR (d0 + e1)).
  { rewrite eq_D, <- plus_IZR. apply rnd_IZR. change (2^53)%Z with 9007199254740992%Z. change (2^52)%Z with 4503599627370496%Z in Hd0. lia. }
  split; [exists (d0 + e1)%Z; exact HD|].
  (* 6. W = V - D *)
  set (W := V - D).
  assert (HW : - / 2 - 4 * e53 <= W <= / 2 + 2 * e53).
  { unfold W. rewrite HD, plus_IZR. replace V with (S + E) by exact eq_SE. unfold z, y in *. lra. }
  (* 7. final pass *)
  set (y2 := S - D) in *.
  assert (Hy2 : y2 = W - E) by (unfold y2, W; lra).
  assert (Hfr2 : Rabs fr2 <= e53).
  { replace fr2 with (- (rnd y2 - y2)) by (rewrite <- eq_ex2; lra). rewrite Rabs_Ropp.
    apply (err_lt y2 1); [lia|]. apply Rabs_lt. rewrite b1, Hy2. lra. }
  apply Rabs_le_inv in Hfr2.
  set (x3 := ex2 + E) in *.
  assert (Hx3 : x3 = W - fr2) by (unfold x3; lra).
  assert (Ht2 : Rabs (rnd x3 - x3) <= e53 / 2).
  { rewrite <- P54. apply (err_lt x3 0); [lia|]. apply Rabs_lt. rewrite b0, Hx3. lra. }
  apply Rabs_le_inv in Ht2. set (t2 := rnd x3) in *.
  assert (HF : Rabs (F - (fr2 + t2)) <= e53 / 2).
  { rewrite eq_F, <- P54. apply (err_lt _ 0); [lia|]. apply Rabs_lt. rewrite b0. lra. }
  apply Rabs_le_inv in HF.
  split.
  - replace (D + F - V) with (F - W) by (unfold W; lra). apply Rabs_le. lra.
  - rewrite P50. apply Rabs_le. lra.
Qed.


Theorem df_tail0_sound (s e : PrimFloat.float) :
  fin s -> fin e -> Rabs (R_of s) <= bpow radix2 52 -> Rabs (R_of e) <= / 2 ->
  let '(d, f) := df_tail0 s e in
  fin d /\ fin f /\ (exists k : Z, R_of d = IZR k) /\
  Rabs (R_of d + R_of f - (R_of s + R_of e)) <= bpow radix2 (-53) /\
  Rabs (R_of f) <= / 2 + bpow radix2 (-50).
Proof.
  intros Fs Fe Bs Be.
  assert (B1 : bnd s 54) by (split; [exact Fs|apply Rle_trans with (1:=Bs); apply bpow_le; lia]).
  assert (B2 : bnd e 55).
  { split; [exact Fe|]. apply Rle_trans with (1:=Be). apply Rle_trans with 1; [lra|]. change 1 with (bpow radix2 0). apply bpow_le. lia. }
  pose proof (df_tail_eqs s e B1 B2) as H.
  destruct (df_tail0 s e) as [d f]. destruct H as (Fd & Ff & Heqs).
  split; [exact Fd|]. split; [exact Ff|]. exact (tail_eqs_sound _ _ _ _ Heqs Bs Be).
Qed.
