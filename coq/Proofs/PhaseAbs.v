(* Proofs/PhaseAbs.v -- C07: abs(Phase) on the bit-exact model: from_angles(int, frac, factor = sign(int + frac)) is within 2^-52
   of |int + frac| (corollary of phase_mul_sound with a factor in {-1, 0, 1}). *)
From Coq Require Import ZArith Reals Psatz Floats.
From Flocq Require Import Core BinarySingleNaN PrimFloat.
From PB Require Import Proofs.TwoSumExact Model.Phase2 Proofs.Floor Proofs.DayFrac Proofs.DayFrac3 Proofs.DayFracTail Proofs.DayFracFold Proofs.PhaseCmp Proofs.PhaseCmpAll Proofs.TwoProduct Proofs.PhaseMul.
Open Scope R_scope.

Notation fexp := (FLT_exp (-1074) 53).
Notation rnd := (round radix2 fexp ZnearestE).

Lemma R_mone : R_of (-1)%float = -1 /\ fin (-1)%float.
Proof. unfold R_of, fin. split; [|reflexivity]. unfold Prim2B. cbn. unfold B2R, SF2B; cbn. unfold F2R; cbn. lra. Qed.

(* np.sign of a finite double *)
Lemma fsign_spec x : fin x ->
  fin (fsign x) /\ ((0 < R_of x /\ R_of (fsign x) = 1) \/ (R_of x < 0 /\ R_of (fsign x) = -1) \/ (R_of x = 0 /\ R_of (fsign x) = 0)).
Proof.
  intros Fx. unfold fsign. destruct R_zero as [E0 F0]. destruct R_one as [E1 F1]. destruct R_mone as [Em Fm].
  rewrite (ltb_R 0%float x F0 Fx), E0. destruct (Rlt_bool_spec 0 (R_of x)) as [H|H].
  - split; [exact F1|]. left. split; [exact H|exact E1].
  - rewrite (ltb_R x 0%float Fx F0), E0. destruct (Rlt_bool_spec (R_of x) 0) as [H'|H'].
    + split; [exact Fm|]. right. left. split; [exact H'|exact Em].
    + assert (Z : R_of x = 0) by lra.
      assert (Eq : PrimFloat.eqb x 0%float = true).
      { rewrite (eqb_R x 0%float Fx F0), E0, Z. apply Req_bool_true. reflexivity. }
      rewrite Eq. split; [exact F0|]. right. right. split; [exact Z|exact E0].
Qed.

Theorem phase_abs_sound (i f : PrimFloat.float) :
  fin i -> fin f -> Rabs (R_of i) <= bpow radix2 52 - 3 -> Rabs (R_of f) <= / 2 ->
  let V := R_of i + R_of f in
  (V = 0 \/ bpow radix2 (-60) <= Rabs V) ->
  let '(d, g) := day_frac_gen i f (Some (fsign (PrimFloat.add i f))) None in
  fin d /\ fin g /\ (exists k : Z, R_of d = IZR k) /\
  Rabs (R_of d + R_of g - Rabs V) <= bpow radix2 (-52) /\ Rabs (R_of g) <= / 2.
Proof.
  intros Fi Ff Bi Bf V HV.
  assert (b52 : 4 <= bpow radix2 52) by (apply Rle_trans with (bpow radix2 2); [simpl; lra|apply bpow_le; lia]).
  destruct (add_R i f Fi Ff) as [Es Fs].
  { apply Rle_lt_trans with (bpow radix2 53); [|apply bpow_lt; lia]. apply rnd_bound; [lia|].
    apply Rle_trans with (1:=Rabs_triang _ _). change 53%Z with (52 + 1)%Z. rewrite bpow_S. lra. }
  fold V in Es.
  destruct (fsign_spec _ Fs) as [Fsg Hsg]. set (sg := fsign (PrimFloat.add i f)) in *.
  (* sign of rnd V is the sign of V *)
  assert (Hsign : (0 < V /\ R_of sg = 1) \/ (V < 0 /\ R_of sg = -1) \/ (V = 0 /\ R_of sg = 0)).
  { rewrite Es in Hsg. destruct HV as [HV|HV].
    - right. right. split; [exact HV|]. rewrite HV, round_0 in Hsg by typeclasses eauto. destruct Hsg as [[H _]|[[H _]|[_ H]]]; [lra|lra|exact H].
    - pose proof (bpow_gt_0 radix2 (-60)) as P. pose proof (rnd_abs_lower V (-60) ltac:(lia) HV) as L.
      unfold Rabs in HV. destruct (Rcase_abs V) as [Vn|Vp].
      + right. left. split; [exact Vn|].
        assert (rnd V <= 0). { rewrite <- (round_0 radix2 fexp ZnearestE). apply round_le; try typeclasses eauto; [apply FLT_exp_valid; red; lia|lra]. }
        destruct Hsg as [[H1 _]|[[_ H1]|[H1 _]]]; [lra|exact H1|rewrite H1, Rabs_R0 in L; lra].
      + left. assert (0 < V) by lra. split; [exact H|].
        assert (0 <= rnd V). { rewrite <- (round_0 radix2 fexp ZnearestE). apply round_le; try typeclasses eauto; [apply FLT_exp_valid; red; lia|lra]. }
        destruct Hsg as [[_ H1]|[[H1 _]|[H1 _]]]; [exact H1|lra|rewrite H1, Rabs_R0 in L; lra]. }
  assert (Bsg : Rabs (R_of sg) <= bpow radix2 400).
  { apply Rle_trans with 1; [destruct Hsign as [[_ ->]|[[_ ->]|[_ ->]]]; apply Rabs_le; lra|].
    change 1 with (bpow radix2 0). apply bpow_le. lia. }
  assert (Hfac : R_of sg = 0 \/ bpow radix2 (-900) <= Rabs (R_of sg)).
  { assert (P : bpow radix2 (-900) <= 1) by (change 1 with (bpow radix2 0); apply bpow_le; lia).
    destruct Hsign as [[_ ->]|[[_ ->]|[_ ->]]]; [right|right|left; reflexivity]; unfold Rabs; destruct (Rcase_abs _); lra. }
  assert (HT : Rabs (V * R_of sg) <= bpow radix2 52 - 2).
  { assert (Rabs V <= bpow radix2 52 - 2) by (unfold V; apply Rle_trans with (1:=Rabs_triang _ _); lra).
    rewrite Rabs_mult. pose proof (Rabs_pos V).
    destruct Hsign as [[_ ->]|[[_ ->]|[_ ->]]]; [replace (Rabs 1) with 1|replace (Rabs (-1)) with 1|replace (Rabs 0) with 0];
      try lra; unfold Rabs; destruct (Rcase_abs _); lra. }
  assert (Bi' : Rabs (R_of i) <= bpow radix2 52) by lra.
  pose proof (phase_mul_sound i f sg Fi Ff Fsg Bi' Bf Bsg HV Hfac HT) as H.
  destruct (day_frac_gen i f (Some sg) None) as [d g].
  replace (Rabs V) with (V * R_of sg); [exact H|].
  destruct Hsign as [[Hv ->]|[[Hv ->]|[Hv ->]]]; [rewrite Rabs_pos_eq by lra; ring|rewrite Rabs_left by exact Hv; ring|rewrite Hv, Rabs_R0; ring].
Qed.

(* the abs branch of the model is this function (real or imaginary phase: the raw parts are used) *)
Lemma op_abs_is (a : ph) :
  op_abs a = let '(d, g) := day_frac_gen (p_int a) (p_frac a) (Some (fsign (PrimFloat.add (p_int a) (p_frac a)))) None in
             RPh {| p_int := d; p_frac := g; p_imag := false |}.
Proof. unfold op_abs. cbn [from_angles check_imaginary Bool.eqb andb xorb of_opt]. destruct (day_frac_gen _ _ _ _). reflexivity. Qed.
