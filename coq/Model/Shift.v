(* Model/Shift.v -- transforms.time_shift (C03) and transforms.freq_shift (C04).
   Index part: the shift array's shape, the padding shift[ix], numpy's broadcast against the sample shape, the
   nditer loop over every element of the sample shape, the per-element store shifted[(slice,)+mi] = 0 through
   CPython slice normalisation, the start/stop accumulation and the crop.
   Value part: the diagonal operator between dft and idft of Lib/Dft.v (same terms the theorems are about),
   carrier-generic; [tshift_f]/[fshift_f] are the binary64 instances run against the code.
   No proofs in this file. *)
From Coq Require Import ZArith QArith Qround Qabs List Bool PrimFloat.
From PB Require Import Lib.PySlice Lib.Dft Lib.F64.
Import ListNotations.
Open Scope Z_scope.

(* ---------------- shapes and broadcasting ---------------- *)
Fixpoint size (sh : list Z) : Z := match sh with [] => 1 | a :: r => a * size r end.
(* shift[ix] with ix = (slice,)*ndim + (None,)*(rank - ndim): trailing length-1 axes *)
Definition pad (sh : list Z) (rank : nat) : list Z := sh ++ repeat 1 (rank - length sh).
(* same-rank broadcast of the padded shift against the sample shape (np.broadcast_to / the product fft*ph) *)
Fixpoint bcast_ok (sh ss : list Z) : bool :=
  match sh, ss with
  | [], [] => true
  | a :: sh', b :: ss' => ((a =? b) || (a =? 1)) && bcast_ok sh' ss'
  | _, _ => false
  end.
(* row-major offset into the (padded) shift array of the element that broadcasting puts at multi-index mi *)
Fixpoint boff (sh mi : list Z) : Z :=
  match sh, mi with
  | a :: sh', i :: mi' => (if a =? 1 then 0 else i) * size sh' + boff sh' mi'
  | _, _ => 0
  end.
Definition bval (sh : list Z) (vals : list Q) (rank : nat) (mi : list Z) : Q :=
  nth (Z.to_nat (boff (pad sh rank) mi)) vals 0%Q.

(* all multi-indices of a shape in C (nditer) order *)
Definition zrange (n : Z) : list Z := map Z.of_nat (seq 0 (Z.to_nat n)).
Fixpoint indices (ss : list Z) : list (list Z) :=
  match ss with
  | [] => [[]]
  | a :: r => flat_map (fun i => map (cons i) (indices r)) (zrange a)
  end.

(* ---------------- per-element zero fill and crop ---------------- *)
Definition Qneg (a : Q) : bool := negb (Qle_bool 0 a).          (* a < 0 *)

(* time range [lo, hi) set to zero for an element whose shift is a (in samples / in bins):
     a < 0 : a = int(floor(a)); shifted[a:] = 0         a >= 0 : a = int(ceil(a)); shifted[:a] = 0      *)
Definition zero_range (N : Z) (a : Q) : Z * Z :=
  if Qneg a then
    match slice_indices (Some (Qfloor a)) None None N with Some (lo, hi, _) => (lo, hi) | None => (0, 0) end
  else
    match slice_indices None (Some (Qceiling a)) None N with Some (lo, hi, _) => (lo, hi) | None => (0, 0) end.

Definition in_range (r : Z * Z) (n : Z) : bool := (fst r <=? n) && (n <? snd r).

(* start = max(start, ceil a) over a >= 0, stop = min(stop, floor a) over a < 0, both from 0 *)
Definition acc_start (vals : list Q) : Z :=
  fold_left (fun s a => if Qneg a then s else Z.max s (Qceiling a)) vals 0.
Definition acc_stop (vals : list Q) : Z :=
  fold_left (fun s a => if Qneg a then Z.min s (Qfloor a) else s) vals 0.

(* np.allclose(shift, 0): every |a| <= atol, atol the binary64 number written 1e-8  ->  the input is returned unchanged *)
Definition atol_1e8 : Q := 3022314549036573 # 302231454903657293676544.
Definition all_tiny (vals : list Q) : bool := forallb (fun a => Qle_bool (Qabs a) atol_1e8) vals.

Record shift_res := {
  sr_noop : bool;                 (* the allclose early exit was taken *)
  sr_zero : list (Z * Z);         (* per element of the sample shape (C order): zeroed range *)
  sr_start : Z; sr_stop : Z;      (* accumulated start >= 0, stop <= 0 *)
  sr_crop : Z * Z                 (* crop=True window [lo, hi) = x[start : max(start, len + stop)] *)
}.

(* N: length; ss: sample shape; sh, vals: the shift array (shape, C-order values).  None = ValueError *)
(* early = true: time_shift (allclose early exit);  early = false: freq_shift (no early exit; a scalar shift arrives as shape [1]) *)
Definition shift_idx (early : bool) (N : Z) (ss sh : list Z) (vals : list Q) : option shift_res :=
  let rank := length ss in
  if (rank <? length sh)%nat then None                         (* shift.ndim >= z.ndim *)
  else if early && all_tiny vals then
    Some {| sr_noop := true; sr_zero := map (fun _ => (0, 0)) (indices ss); sr_start := 0; sr_stop := 0; sr_crop := (0, N) |}
  else if negb (bcast_ok (pad sh rank) ss) then None           (* operands could not be broadcast *)
  else
    let elems := map (bval sh vals rank) (indices ss) in
    let start := acc_start elems in
    let stop := acc_stop elems in
    let crop := match slice_indices (Some start) (Some (Z.max start (N + stop))) None N with
                | Some (lo, hi, _) => (lo, hi) | None => (0, 0) end in
    Some {| sr_noop := false; sr_zero := map (zero_range N) elems; sr_start := start; sr_stop := stop; sr_crop := crop |}.

(* flattened result for the harness: noop, start, stop, crop_lo, crop_hi, then lo,hi per element; [-1] = error *)
Definition shift_idx_flat (early : bool) (N : Z) (ss sh : list Z) (vals : list Q) : list Z :=
  match shift_idx early N ss sh vals with
  | None => [-1]
  | Some r => (if sr_noop r then 1 else 0) :: sr_start r :: sr_stop r :: fst (sr_crop r) :: snd (sr_crop r)
              :: flat_map (fun p => [fst p; snd p]) (sr_zero r)
  end.

(* The zero-fill clause of C03/C04 as an executable predicate over the OBSERVED zero mask: [obs] lists, per element of
   the sample shape in C order, the positions (ascending) at which the returned data is exactly zero.  A position must
   be zero iff its source n - a lies outside [0, N-1].  Result: number of elements violating the clause. *)
Definition outside (N : Z) (a : Q) (n : Z) : bool :=
  Qneg (inject_Z n - a) || Qneg (inject_Z (N - 1) - (inject_Z n - a)).
Definition expected_zeros (N : Z) (a : Q) : list Z := filter (outside N a) (zrange N).
Fixpoint list_Zeqb (a b : list Z) : bool :=
  match a, b with [], [] => true | x :: a', y :: b' => (x =? y) && list_Zeqb a' b' | _, _ => false end.
Definition zero_ok (N : Z) (ss sh : list Z) (vals : list Q) (obs : list (list Z)) : Z :=
  let rank := length ss in
  let elems := map (bval sh vals rank) (indices ss) in
  if (length elems =? length obs)%nat then
    Z.of_nat (length (filter (fun p => negb (list_Zeqb (expected_zeros N (fst p)) (snd p))) (combine elems obs)))
  else -1.

(* ---------------- value part (carrier-generic) ---------------- *)
(* np.fft.fftfreq(n, 1) * n : signed bin number of unsigned bin k *)
Definition fftfreq (n : Z) (k : Z) : Z := if k <=? (n - 1) / 2 then k else k - n.
(* np.fft.fftshift along an axis of length n: shifted[j] = X[(j - n/2) mod n] *)
Definition unshift_idx (n j : Z) : Z := (j - n / 2) mod n.

Section Generic.
  Variable T : Type.
  Variables (t0 : T) (tadd tmul : T -> T -> T).
  Variable n : nat.
  Variable W : Z -> T.          (* W z = exp(2 pi i z / n) *)
  Variable ninv : T.

  (* time_shift on one element (one lane): ramp M k = exp(-2 pi i s fftfreq(k)/n), then zero-fill of range r *)
  Definition tshift (M : nat -> T) (r : Z * Z) (x : nat -> T) (m : nat) : T :=
    if in_range r (Z.of_nat m) then t0
    else idft T t0 tadd tmul n W ninv (fun k => tmul (dft T t0 tadd tmul n W x k) (M k)) m.
  (* integer shift s: the ramp is W(-(fftfreq k * s)) *)
  Definition tshift_int (s : Z) (x : nat -> T) (m : nat) : T :=
    tshift (fun k => W (- (fftfreq (Z.of_nat n) (Z.of_nat k) * s))) (zero_range (Z.of_nat n) (inject_Z s)) x m.

  (* freq_shift on one lane: mix with P m = exp(2 pi i ft m), spectrum in fftshift order, zero-fill of range r there *)
  Definition fshift_spec (P : nat -> T) (r : Z * Z) (x : nat -> T) (j : nat) : T :=     (* fftshifted spectrum after zeroing *)
    if in_range r (Z.of_nat j) then t0
    else dft T t0 tadd tmul n W (fun m => tmul (x m) (P m)) (Z.to_nat (unshift_idx (Z.of_nat n) (Z.of_nat j))).
  (* ifft(ifftshift(.)): bin k of the unshifted spectrum is shifted index (k + n/2) mod n *)
  Definition fshift (P : nat -> T) (r : Z * Z) (x : nat -> T) (m : nat) : T :=
    idft T t0 tadd tmul n W ninv
      (fun k => fshift_spec P r x (Z.to_nat ((Z.of_nat k + Z.of_nat n / 2) mod Z.of_nat n))) m.
  Definition fshift_spec_int (b : Z) (x : nat -> T) (j : nat) : T :=
    fshift_spec (fun m => W (b * Z.of_nat m)) (zero_range (Z.of_nat n) (inject_Z b)) x j.
End Generic.

(* ---------------- binary64 instances ---------------- *)
(* shift s = p/q samples (q > 0) on the lane xs (complex), zero range r *)
Definition tshift_f (xs : list Fc) (p q : Z) (r : Z * Z) : list Fc :=
  let n := length xs in
  let N := Z.of_nat n in
  let x := fun m => nth m xs c0 in
  let W := fun z => cis_turn z N in
  let ninv := ((1 / of_Z N)%float, f0) in
  let X := map (dft Fc c0 cadd cmul n W x) (seq 0 n) in
  let Xm := map (fun k => cmul (nth k X c0) (cis_turn (- (fftfreq N (Z.of_nat k) * p)) (q * N))) (seq 0 n) in
  map (fun m => if in_range r (Z.of_nat m) then c0
                else idft Fc c0 cadd cmul n W ninv (fun k => nth k Xm c0) m) (seq 0 n).

(* mixing by ft = p/q cycles per sample, zero range r (in fftshift order) *)
Definition fshift_f (xs : list Fc) (p q : Z) (r : Z * Z) : list Fc :=
  let n := length xs in
  let N := Z.of_nat n in
  let W := fun z => cis_turn z N in
  let ninv := ((1 / of_Z N)%float, f0) in
  let y := map (fun m => cmul (nth m xs c0) (cis_turn (p * Z.of_nat m) q)) (seq 0 n) in
  let Y := map (dft Fc c0 cadd cmul n W (fun m => nth m y c0)) (seq 0 n) in
  let Zs := map (fun j => if in_range r (Z.of_nat j) then c0 else nth (Z.to_nat (unshift_idx N (Z.of_nat j))) Y c0) (seq 0 n) in
  map (idft Fc c0 cadd cmul n W ninv (fun k => nth (Z.to_nat ((Z.of_nat k + N / 2) mod N)) Zs c0)) (seq 0 n).
