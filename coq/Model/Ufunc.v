(* Model/Ufunc.v -- Signal.__array_ufunc__ (C17), statement by statement, over abstract arrays.
   An operand is a signal (object identity, class, metadata, data) or a plain array / scalar / Quantity.  The ufunc itself is a
   parameter: it maps the unwrapped input arrays to nout output arrays.  No proofs in this file. *)
From Coq Require Import List Bool Arith.
Import ListNotations.

Section Ufunc.
  Variable A : Type.                                  (* arrays *)
  Record sig := { s_id : nat; s_cls : nat; s_meta : nat; s_data : A }.
  Inductive operand := OSig (s : sig) | OArr (a : A).
  Definition unwrap (o : operand) : A := match o with OSig s => s_data s | OArr a => a end.
  Definition is_sig (o : operand) : bool := match o with OSig _ => true | OArr _ => false end.

  Inductive method := MCall | MReduce | MAccumulate | MOuter | MAt | MReduceat.
  Inductive result :=
  | RSig (s : sig)              (* a signal: either a fresh one (id 0) or a given out object *)
  | RArr (a : A)                (* a given out= array, returned as it is *)
  .
  Inductive outcome := Results (rs : list result) | NotImplemented.     (* NotImplemented from every operand = TypeError *)

  Variable ufunc : list A -> list A.                  (* the elementwise function on plain arrays: nout outputs *)

  (* first signal among the inputs (the reference for like()) *)
  Fixpoint first_sig (inputs : list operand) : option sig :=
    match inputs with [] => None | OSig s :: _ => Some s | OArr _ :: r => first_sig r end.

  (* out: one entry per output: None, a signal, or an array.  A given out object receives the values. *)
  Definition wrap (ref : sig) (a : A) (o : option operand) : result :=
    match o with
    | None => RSig {| s_id := 0; s_cls := s_cls ref; s_meta := s_meta ref; s_data := a |}      (* type(ref).like(ref, a) *)
    | Some (OSig s) => RSig {| s_id := s_id s; s_cls := s_cls s; s_meta := s_meta s; s_data := a |}   (* the SAME object, data overwritten *)
    | Some (OArr _) => RArr a
    end.

  Definition array_ufunc (m : method) (is_matmul : bool) (inputs : list operand) (out : list (option operand)) : outcome :=
    match m with
    | MCall =>
      if is_matmul then NotImplemented
      else match first_sig (inputs ++ flat_map (fun o => match o with Some x => [x] | None => [] end) out) with
           | None => NotImplemented           (* no signal involved: this method is never reached *)
           | Some ref0 =>
             let ref := match first_sig inputs with Some r => r | None => ref0 end in
             let vals := ufunc (map unwrap inputs) in
             Results (map (fun p => wrap ref (fst p) (snd p)) (combine vals out))
           end
    | _ => NotImplemented
    end.

  (* z op= x  ==  ufunc(z, x, out=(z,)) : chains of in-place operations on one signal *)
  Definition inplace (z : sig) (x : operand) : outcome := array_ufunc MCall false [OSig z; x] [Some (OSig z)].
End Ufunc.

(* the class tree of pulsarbat (strict subclass relation) -- only needed to state which operand NumPy asks first *)
Definition parent (c : nat) : option nat :=
  match c with 0 => None | 1 => Some 0 | 2 => Some 1 | 3 => Some 2 | 4 => Some 1 | 5 => Some 4 | _ => None end.
Fixpoint is_strict_subclass_fuel (fuel : nat) (c d : nat) : bool :=      (* c is a strict subclass of d *)
  match fuel with O => false | S k => match parent c with None => false | Some p => Nat.eqb p d || is_strict_subclass_fuel k p d end end.
Definition strict_subclass := is_strict_subclass_fuel 6.
