(* Props/C02.v -- channel frequency labels follow the band model and survive frequency slicing. *)
From Coq Require Import ZArith QArith List.
From PB Require Import Lib.PySlice Gen.GenConsts Model.Band Proofs.BandProofs Gen.GenBand Proofs.BandGen.
From PB Require Import Model.Ledger Model.Getitem Gen.GenGetitem Proofs.GetitemProofs.
Import ListNotations.
Open Scope Z_scope.

(* the _align constants in core.py are 0, 1/2, 1: a statement about the table GENERATED from the source *)
Theorem C02_align_constants : (align_q 0 == 0)%Q /\ (align_q 1 == 1 # 2)%Q /\ (align_q 2 == 1)%Q.
Proof. exact align_q_vals. Qed.
Theorem C02_label_formula_text : label_formula_is_canonical = true.
Proof. exact label_formula_canonical. Qed.

Theorem C02_spacing : forall b i, (label b (i + 1) - label b i == bw b)%Q.
Proof. exact label_spacing. Qed.
Theorem C02_in_band : forall b i, valid_align (align b) -> (0 < bw b)%Q -> 0 <= i < nchan b ->
  (min_freq b <= label b i <= max_freq b)%Q.
Proof. exact labels_in_band. Qed.
Theorem C02_width : forall b, (max_freq b - min_freq b == inject_Z (nchan b) * bw b)%Q.
Proof. exact band_width. Qed.
Theorem C02_odd_center : forall n a, Z.odd n = true -> norm_align n a = 1.
Proof. exact norm_align_odd. Qed.

Theorem C02_slice : forall b a c st b' lo,
  0 <= nchan b -> freq_slice b a c st = BOk b' lo ->
  0 <= lo /\ 1 <= nchan b' /\ lo + nchan b' <= nchan b /\ (bw b' == bw b)%Q /\ align b' = 1 /\
  lo = clip (nchan b) a 0 /\ lo + nchan b' = clip (nchan b) c (nchan b) /\
  forall j, (label b' j == label b (lo + j))%Q.
Proof. exact freq_slice_labels. Qed.

Theorem C02_nested : forall sl b b' lo,
  0 <= nchan b -> freq_slices b sl = BOk b' lo ->
  0 <= lo /\ lo + nchan b' <= nchan b /\ (bw b' == bw b)%Q /\ forall j, (label b' j == label b (lo + j))%Q.
Proof. exact freq_slices_labels. Qed.

Theorem C02_model_meets_spec : forall b tol,
  1 <= nchan b -> (0 < bw b)%Q -> valid_align (align b) -> (Z.odd (nchan b) = true -> align b = 1) ->
  (0 <= tol)%Q -> C02_ok tol (bobs_of_model b) = 0.
Proof. exact band_meets_spec. Qed.

(* tie to the source by translation (T4): the label formula, bandwidth, band edges and the whole arithmetic of _freq_slice (its two
   assertions, the new centre frequency from the first and last retained labels, the alignment name it sets) are the terms GENERATED
   from RadioSignal in core.py on this run *)
Theorem C02_generated_label : forall b i, label b i = gen_label b i.
Proof. exact label_generated. Qed.
Theorem C02_generated_edges : forall b, bandwidth b = gen_bandwidth b /\ max_freq b = gen_max_freq b /\ min_freq b = gen_min_freq b.
Proof. exact (fun b => conj (bandwidth_generated b) (conj (max_freq_generated b) (min_freq_generated b))). Qed.
Theorem C02_generated_slice : forall (b : band) (a c st : option Z),
  freq_slice b a c st =
  match st with
  | Some 0 => BErr 3
  | _ =>
    if (match st with None => 1 | Some s => s end) <? 0 then BErr 2 else
    match slice_indices a c st (nchan b) with
    | None => BErr 2
    | Some (lo, hi, s) =>
      if negb (gen_fs_guard1 lo hi s) then BErr 2
      else if negb (gen_fs_guard2 lo hi s) then BErr 2
      else BOk (mk_band (gen_fs_center b lo hi s) (bw b) (hi - lo) 1) lo
    end
  end.
Proof. exact freq_slice_generated. Qed.
Theorem C02_generated_align : align_name 1 = gen_fs_align.
Proof. exact fs_align_generated. Qed.

(* z[time, freq, ...]: the dispatch of RadioSignal.__getitem__ (regenerated from core.py, C01_generated_getitem).  A successful
   index is freq_slice on item 1 (C02_slice / C02_nested apply); with one item the band is untouched; items beyond the two
   labelled axes - a Stokes or polarisation component, any trailing-axis selection - never influence time or frequency labels;
   anything but a slice on the frequency axis is IndexError; Stokes component names are the pinned FullStokesSignal.__getitem__. *)
Theorem C02_getitem : forall l bd index l' off st r,
  radio_getitem l bd index = GOk l' off st r ->
  exists a b c rest, index = ISlice a b c :: rest /\ time_slice l a b c = Ok l' off st /\
    match rest with
    | [] => r = None
    | ISlice fa fb fc :: _ => exists b' lo, r = Some (b', lo) /\ freq_slice bd fa fb fc = BOk b' lo
    | IOther :: _ => False
    end.
Proof. exact radio_getitem_ok. Qed.
Theorem C02_trailing_items_irrelevant : forall l bd i0 i1 rest, radio_getitem l bd (i0 :: i1 :: rest) = radio_getitem l bd [i0; i1].
Proof. exact radio_getitem_trailing. Qed.
Theorem C02_time_only_keeps_band : forall l bd i0, radio_getitem l bd [i0] = signal_getitem l [i0].
Proof. exact radio_getitem_time_only. Qed.
Theorem C02_getitem_refuses : forall l bd i0 rest, radio_getitem l bd (i0 :: IOther :: rest) = GIndex.
Proof. exact (fun l bd i0 rest => proj1 (proj2 (radio_getitem_refuses l bd i0 rest))). Qed.
Theorem C02_generated_getitem : forall l bd index, radio_getitem l bd index = gen_radio_getitem l bd index.
Proof. exact radio_getitem_generated. Qed.
Theorem C02_generated_stokes_getitem : gen_stokes_getitem_is_component_or_parent = true.
Proof. exact stokes_getitem_pinned. Qed.

Print Assumptions C02_align_constants.
Print Assumptions C02_in_band.
Print Assumptions C02_slice.
Print Assumptions C02_nested.
Print Assumptions C02_model_meets_spec.
Print Assumptions C02_generated_slice.
Print Assumptions C02_getitem.
Print Assumptions C02_trailing_items_irrelevant.
Print Assumptions C02_generated_getitem.
