"""C13: polarisation conversions are unitary, invertible and Stokes-consistent.
(P) Props/C13.v over R; (T) the same Gallina definitions instantiated with primitive binary64 floats and
evaluated by vm_compute on sample elements; (M) the documented formulas evaluated independently in
longdouble on the implementation's input, round trips, identities and component access."""
import numpy as np
import astropy.units as u
from astropy.time import Time
import dask.array as da
import pulsarbat as pb
from harness.common import float_lit, boollit
from harness import exact as X

VFILES = ['Gen/GenConsts.v', 'Model/Pol.v', 'Proofs/PolProofs.v', 'Gen/GenPol.v', 'Proofs/PolGen.v', 'Props/C13.v']
REAL_AX = {'ClassicalDedekindReals.sig_forall_dec', 'ClassicalDedekindReals.sig_not_dec',
           'FunctionalExtensionality.functional_extensionality_dep', 'Classical_Prop.classic'}

HEADER = '''From Coq Require Import PrimFloat ZArith Bool List. Import ListNotations. Open Scope bool_scope.
From PB Require Import Model.Pol.
Open Scope Z_scope.
Definition s2 : float := PrimFloat.sqrt 2%float.
Definition Fx := (float * float)%type.
Definition close (tol a b : float) : bool := PrimFloat.leb (PrimFloat.abs (PrimFloat.sub a b)) tol.
Definition cclose (tol : float) (a b : Fx) : bool := close tol (fst a) (fst b) && close tol (snd a) (snd b).
Fixpoint lclose (tol : float) (a b : list float) : bool :=
  match a, b with [], [] => true | x :: a', y :: b' => close tol x y && lclose tol a' b' | _, _ => false end.
(* conversion: tgt = true -> to_circular, false -> to_linear; circ = pol_type of the input *)
Definition chk_conv (tgt circ : bool) (a b oa ob : Fx) (tol : float) : Z :=
  let r := if tgt then to_circular float PrimFloat.add PrimFloat.sub PrimFloat.div PrimFloat.opp s2 circ a b
           else to_linear float PrimFloat.add PrimFloat.sub PrimFloat.div PrimFloat.opp s2 circ a b in
  if cclose tol (fst r) oa && cclose tol (snd r) ob then 0 else 1.
Definition chk_stokes (circ : bool) (a b : Fx) (out : list float) (tol : float) : Z :=
  if lclose tol (to_stokes float PrimFloat.add PrimFloat.sub PrimFloat.mul PrimFloat.opp 2%float circ a b) out then 0 else 1.
Definition chk_int (a : Fx) (out tol : float) : Z :=
  if close tol (to_intensity float PrimFloat.add PrimFloat.mul a) out then 0 else 1.
'''


def fx(z):
    return f'({float_lit(z.real)}, {float_lit(z.imag)})'


def run(ctx):
    rng = ctx.rng
    nprng = np.random.default_rng(ctx.seed + 13)
    ctx.rule = ('dual-polarisation signals with arbitrary (not unit-modulus) complex samples over 6 decades of amplitude, both bases, '
                'complex64/128, 1..4 channels, 0..2 trailing dims, NumPy and Dask data; all conversions, Stokes, intensity, component access. '
                'non-trivial: every case; distinct by (shape, dtype, basis, container, seed).')
    ctx.trusted = ['translator T11 translate/py_pol2coq.py (formulas of to_intensity / to_linear / to_circular / to_stokes over the abstract carrier)', 'Coq 8.16.1 kernel + stdlib real-number axioms; vm_compute on primitive floats (kernel float primitives)',
                   'translator T2 (_stokes_ids)', 'numpy elementwise arithmetic within 16 ulp of the formula']
    ctx.assumptions = ['tolerance 16 ulp of the working precision times the local power |x|^2+|y|^2 (or amplitude for conversions)']
    ctx.regen()
    built = ctx.build(['Props/C13.vo'])
    ctx.count_obligations(VFILES)
    if built:
        ctx.assumptions_of('Props/C13.v', allowed=REAL_AX)

    items, meta = [], []
    NCASE = 120 if ctx.tier == 'quick' else 1500
    LD = np.clongdouble
    r2 = np.sqrt(np.longdouble(2))
    for k in range(NCASE):
        nchan = rng.choice([1, 2, 3, 4])
        tail = tuple(rng.choice([1, 2, 3]) for _ in range(rng.choice([0, 0, 1, 2])))
        L = rng.choice([1, 2, 5, 9])
        cdt = rng.choice([np.complex128, np.complex64])
        amp = 10 ** rng.uniform(-3, 3)
        x = amp * (nprng.standard_normal((L, nchan, 2) + tail) + 1j * nprng.standard_normal((L, nchan, 2) + tail))
        if rng.random() < 0.15:
            x[..., 0, :1 if tail else None] = 0       # a vanishing component somewhere
        x = x.astype(cdt)
        basis = rng.choice(['linear', 'circular'])
        dask = rng.random() < 0.4
        # chunk layouts incl. the polarisation axis split in two (what da.stack of two single-polarisation streams produces)
        polc = rng.choice([2, 2, 1])
        data = da.from_array(x, chunks=(max(1, L // 2), rng.choice([1, nchan]), polc) + tuple(rng.choice([1, t]) for t in tail)) if dask else x
        start = Time('2021-03-04T05:06:07.5', precision=9) if rng.random() < 0.7 else None
        # the basis label as it arrives in practice: a literal, or an EQUAL string that is another object (parsed from a header, a NumPy
        # string, the result of a string operation) - behaviour may depend on the label's value only
        label = rng.choice([basis, ''.join(list(basis)), np.str_(basis), (' ' + basis.upper() + ' ').strip().lower()])
        z = pb.DualPolarizationSignal(data, sample_rate=1 * u.MHz, center_freq=1.4 * u.GHz, freq_align=rng.choice(['bottom', 'center', 'top']),
                                      pol_type=label, start_time=start, meta={'k': k})
        ctx.count('label:' + ('literal' if label is basis else type(label).__name__ + '_copy'))
        inp = dict(shape=list(x.shape), dtype=np.dtype(cdt).name, basis=basis, dask=dask, amp=amp, case=k)
        ctx.seen(inp)
        ctx.count('basis:' + basis)
        ctx.count('dask' if dask else 'numpy')
        eps = 2.0 ** -52 if cdt is np.complex128 else 2.0 ** -23
        A, B = x[:, :, 0].astype(LD), x[:, :, 1].astype(LD)
        pw = (np.abs(A) ** 2 + np.abs(B) ** 2).astype(np.float64)
        am = np.sqrt(pw)

        def same_meta(y, what):
            ok = (y.sample_rate == z.sample_rate and y.center_freq == z.center_freq and y.freq_align == z.freq_align and
                  ((y.start_time is None and start is None) or (start is not None and y.start_time == z.start_time)) and
                  len(y) == L and y.nchan == nchan and y.meta == z.meta and isinstance(y.data, da.Array) == dask)
            if not ok:
                ctx.fail('metadata_or_container_changed', inp, impl=what)
            return ok

        try:
            lin, circ, st, inten = z.to_linear(), z.to_circular(), z.to_stokes(), z.to_intensity()
        except Exception as e:
            ctx.fail('conversion_raised', inp, impl=repr(e))
            continue
        if not (same_meta(lin, 'to_linear') and same_meta(circ, 'to_circular') and same_meta(st, 'to_stokes') and same_meta(inten, 'to_intensity')):
            continue
        if lin.pol_type != 'linear' or circ.pol_type != 'circular' or type(st) is not pb.FullStokesSignal or type(inten) is not pb.IntensitySignal \
           or type(lin) is not pb.DualPolarizationSignal:
            ctx.fail('result_type_or_pol_type', inp)
            continue
        try:
            lin_d, circ_d, st_d, int_d = (np.asarray(v.data) for v in (lin, circ, st, inten))
        except Exception as e:
            ctx.fail('conversion_raised', dict(inp, chunks=str(getattr(data, 'chunks', None)), at='compute'), impl=repr(e))
            continue
        if st_d.shape != (L, nchan, 4) + tail or lin_d.shape != x.shape or circ_d.shape != x.shape or int_d.shape != x.shape:
            ctx.fail('result_shape', inp, impl=[list(st_d.shape), list(lin_d.shape)])
            continue
        # documented relations, independently in longdouble
        if basis == 'linear':
            Xc, Yc = A, B
            Lc, Rc = (Xc - 1j * Yc) / r2, (Xc + 1j * Yc) / r2
        else:
            Lc, Rc = A, B
            Xc, Yc = (Lc + Rc) / r2, 1j * (Lc - Rc) / r2
        want_lin = np.stack([Xc, Yc], axis=2)
        want_circ = np.stack([Lc, Rc], axis=2)
        tola = 16 * eps * am[:, :, None] + 1e-300
        for name, got, want in (('to_linear', lin_d, want_lin), ('to_circular', circ_d, want_circ)):
            e = np.abs(got.astype(LD) - want).astype(np.float64)
            ctx.ratio(float(np.max(e / tola)), 1.0)
            if np.any(e > tola):
                ctx.fail(name + '_values', inp, impl=float(np.max(e / tola)))
        # identity in the own basis
        own = lin_d if basis == 'linear' else circ_d
        if not np.array_equal(own, x):
            ctx.fail('own_basis_not_identity', inp)
        # power preserved, inverse conversions (through the implementation)
        for got in (lin_d, circ_d):
            p2 = (np.abs(got[:, :, 0].astype(LD)) ** 2 + np.abs(got[:, :, 1].astype(LD)) ** 2).astype(np.float64)
            if np.any(np.abs(p2 - pw) > 32 * eps * pw + 1e-300):
                ctx.fail('power_not_preserved', inp)
        try:
            back = np.asarray((circ.to_linear() if basis == 'linear' else lin.to_circular()).data)
            other_pre = np.asarray((circ if basis == 'linear' else lin).to_stokes().data)
        except Exception as e:
            ctx.fail('conversion_raised', dict(inp, chunks=str(getattr(data, 'chunks', None)), at='second conversion'), impl=repr(e))
            continue
        if np.any(np.abs(back.astype(LD) - x.astype(LD)).astype(np.float64) > 32 * eps * am[:, :, None] + 1e-300):
            ctx.fail('round_trip_not_identity', inp)
        # Stokes: documented formulas on the linear representation
        XX, YY = np.abs(Xc) ** 2, np.abs(Yc) ** 2
        XY = np.conj(Xc) * Yc
        want_st = np.stack([XX + YY, XX - YY, 2 * XY.real, 2 * XY.imag], axis=2).astype(np.longdouble)
        tols = 24 * eps * pw[:, :, None] + 1e-300
        e = np.abs(st_d.astype(np.longdouble) - want_st).astype(np.float64)
        ctx.ratio(float(np.max(e / tols)), 1.0)
        if np.any(e > tols):
            ctx.fail('stokes_formulas', inp, impl=float(np.max(e / tols)))
        # identical whichever basis they are computed from (through the implementation)
        other = other_pre
        if np.any(np.abs(other.astype(np.longdouble) - st_d.astype(np.longdouble)).astype(np.float64) > 48 * eps * pw[:, :, None] + 1e-300):
            ctx.fail('stokes_depend_on_basis', inp)
        I, Q, U, V = (st_d[:, :, j].astype(np.longdouble) for j in range(4))
        if np.any(I < 0) or np.any(np.abs(I * I - (Q * Q + U * U + V * V)).astype(np.float64) > 64 * eps * pw * pw + 1e-300):
            ctx.fail('I2_eq_Q2_U2_V2_or_I_nonneg', inp)
        if np.any(np.abs(I - (int_d[:, :, 0].astype(np.longdouble) + int_d[:, :, 1])).astype(np.float64) > 8 * eps * pw + 1e-300):
            ctx.fail('I_not_sum_of_intensities', inp)
        # component access by name
        for j, nm in enumerate('IQUV'):
            c1, c2 = st[nm], getattr(st, 'stokes' + nm)
            if type(c1) is not pb.IntensitySignal or not np.array_equal(np.asarray(c1.data), st_d[:, :, j]) or \
               not np.array_equal(np.asarray(c2.data), st_d[:, :, j]) or c1.start_time != st.start_time or c1.center_freq != st.center_freq:
                ctx.fail('component_by_name', inp, impl=nm)
        try:
            st['X']
            ctx.fail('unknown_component_did_not_raise', inp)
        except KeyError:
            pass
        # (T) the Gallina definitions on primitive floats, a few elements per case
        flatA, flatB = x[:, :, 0].reshape(-1), x[:, :, 1].reshape(-1)
        for _ in range(4):
            j = rng.randrange(flatA.size)
            a, b = complex(flatA[j]), complex(flatB[j])
            pj = abs(a) ** 2 + abs(b) ** 2
            ta, ts = 16 * eps * (pj ** 0.5) + 1e-300, 24 * eps * pj + 1e-300
            circ_in = boollit(basis == 'circular')
            ol, oc = lin_d[:, :, 0].reshape(-1)[j], lin_d[:, :, 1].reshape(-1)[j]
            items.append(f'chk_conv false {circ_in} {fx(a)} {fx(b)} {fx(complex(ol))} {fx(complex(oc))} {float_lit(ta)}')
            meta.append(dict(inp=inp, impl='to_linear element'))
            ol, oc = circ_d[:, :, 0].reshape(-1)[j], circ_d[:, :, 1].reshape(-1)[j]
            items.append(f'chk_conv true {circ_in} {fx(a)} {fx(b)} {fx(complex(ol))} {fx(complex(oc))} {float_lit(ta)}')
            meta.append(dict(inp=inp, impl='to_circular element'))
            so = [float(st_d[:, :, q].reshape(-1)[j]) for q in range(4)]
            items.append(f'chk_stokes {circ_in} {fx(a)} {fx(b)} [{"; ".join(float_lit(v) for v in so)}] {float_lit(ts)}')
            meta.append(dict(inp=inp, impl='to_stokes element'))
            items.append(f'chk_int {fx(a)} {float_lit(float(int_d[:, :, 0].reshape(-1)[j]))} {float_lit(ts)}')
            meta.append(dict(inp=inp, impl='to_intensity element'))

        # the conversions are functions of the signal's CURRENT samples and basis label: asked again after the returned Stokes signal was
        # overwritten, after the samples were scaled in place (by 2: every Stokes parameter times 4, exactly) and after the basis label
        # was switched, they must answer for what the signal holds now
        if not dask and rng.random() < 0.6:
            ctx.count('asked_again_after_a_change')
            try:
                st0 = np.array(np.asarray(st.data), copy=True)
                st *= 0
                again = np.asarray(z.to_stokes().data)
                if not np.array_equal(again, st0):
                    ctx.fail('stokes_changed_after_result_was_overwritten', inp)
                z *= 2
                scaled = np.asarray(z.to_stokes().data)
                if not np.array_equal(scaled, 4 * st0):
                    ctx.fail('stokes_not_of_current_samples', dict(inp, change='z *= 2'))
                if not np.array_equal(np.asarray(z.to_intensity().data), 4 * int_d):
                    ctx.fail('intensity_not_of_current_samples', dict(inp, change='z *= 2'))
                z.pol_type = 'circular' if basis == 'linear' else 'linear'
                flipped = np.asarray(z.to_stokes().data)
                ref = pb.DualPolarizationSignal(np.array(np.asarray(z.data), copy=True), sample_rate=1 * u.MHz, center_freq=1.4 * u.GHz,
                                                pol_type=z.pol_type).to_stokes()
                if not np.array_equal(flipped, np.asarray(ref.data)):
                    ctx.fail('stokes_not_of_current_basis_label', dict(inp, change='pol_type switched'))
            except Exception as e:
                ctx.fail('conversion_raised', dict(inp, at='asked again after a change'), impl=repr(e))

    res = ctx.run_cases(HEADER, items, shard=max(100, len(items) // 32 + 1))
    if res is None:
        return
    for r, m in zip(res, meta):
        if r:
            ctx.mismatch(f'polarisation model (binary64 instance) vs implementation: {m["impl"]}', m['inp'], impl=m['impl'])
