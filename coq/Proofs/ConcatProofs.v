(* Proofs/ConcatProofs.v -- C10: concatenate inverts splitting (time and frequency), for every tolerance
   eps >= 0, rt >= 0; and refuses pieces displaced by a sample / a channel or of another class. *)
From Coq Require Import ZArith QArith Qabs Lia Lqa List Bool.
From PB Require Import Lib.PySlice Model.Ledger Model.Band Model.Concat Proofs.BandProofs.
Import ListNotations.
Open Scope Z_scope.

Lemma close_abs_refl eps a b : (0 <= eps)%Q -> (a == b)%Q -> close_abs eps a b = true.
Proof. intros He E. unfold close_abs. apply Qle_bool_iff. rewrite E.
  setoid_replace (b - b)%Q with 0%Q by ring. exact He. Qed.
Lemma close_rel_refl rt a b : (0 <= rt)%Q -> (a == b)%Q -> close_rel rt a b = true.
Proof. intros He E. unfold close_rel. apply Qle_bool_iff. rewrite E.
  setoid_replace (b - b)%Q with 0%Q by ring. change (Qabs 0) with 0%Q.
  apply Qmult_le_0_compat; [exact He|apply Qabs_nonneg]. Qed.

Definition ref_ok (l : ledger) (ref : option Q) : Prop :=
  match ref with None => True | Some rf => match t0 l with Some t => (rf == t)%Q | None => False end end.

(* ---------- time axis ---------- *)
Lemma scan_split eps l : (0 <= eps)%Q -> (0 < rate l)%Q ->
  forall cuts c0 ref, ref_ok l ref ->
  exists ref', scan eps (rate l) ref c0 (split_at l c0 cuts) = Some ref' /\ ref_ok l ref' /\
               (ref' = None -> ref = None /\ (t0 l = None \/ forall c k, In (c, k) cuts -> k = false)).
Proof.
  intros He Hr. induction cuts as [|[c1 keep] cs IH]; intros c0 ref Hok.
  - exists ref. simpl. split; [reflexivity|]. split; [exact Hok|]. intros ->. split; [reflexivity|]. right. intros c k [].
  - cbn [split_at scan t0 len].
    destruct keep; [destruct (t0 l) as [t|] eqn:Et|].
    + destruct ref as [rf|].
      * simpl in Hok. rewrite Et in Hok.
        assert (Hc : close_abs eps (rf + inject_Z c0 / rate l)%Q (t + inject_Z c0 / rate l)%Q = true).
        { apply close_abs_refl; [exact He|]. rewrite Hok. reflexivity. }
        rewrite Hc. replace (c0 + (c1 - c0)) with c1 by ring.
        destruct (IH c1 (Some rf)) as (ref' & E & O & Nn). { simpl. rewrite Et. exact Hok. }
        exists ref'. split; [exact E|]. split; [exact O|]. intros ->. destruct (Nn eq_refl) as [D _]. discriminate.
      * replace (c0 + (c1 - c0)) with c1 by ring.
        destruct (IH c1 (Some (t + inject_Z c0 / rate l - inject_Z c0 / rate l)%Q)) as (ref' & E & O & Nn).
        { simpl. rewrite Et. field. lra. }
        exists ref'. split; [exact E|]. split; [exact O|]. intros ->. destruct (Nn eq_refl) as [D _]. discriminate.
    + replace (c0 + (c1 - c0)) with c1 by ring.
      destruct (IH c1 ref Hok) as (ref' & E & O & Nn). exists ref'. split; [exact E|]. split; [exact O|].
      intros H. destruct (Nn H) as [D _]. split; [exact D|]. left. reflexivity.
    + replace (c0 + (c1 - c0)) with c1 by ring.
      destruct (IH c1 ref Hok) as (ref' & E & O & Nn). exists ref'. split; [exact E|]. split; [exact O|].
      intros H. destruct (Nn H) as [D [T|F]].
      * split; [exact D|]. left; exact T.
      * split; [exact D|]. right. intros c k [Eq|I]; [congruence|eapply F; exact I].
Qed.

Lemma total_len_split l : forall cuts c0, total_len (split_at l c0 cuts) = last_cut c0 cuts - c0.
Proof. induction cuts as [|[c1 k] cs IH]; intros c0; simpl; [lia|]. rewrite IH. lia. Qed.

Lemma rate_split l : forall cuts c0 p, In p (split_at l c0 cuts) -> rate p = rate l.
Proof. induction cuts as [|[c1 k] cs IH]; intros c0 p H; simpl in H; [contradiction|].
  destruct H as [<-|H]; [reflexivity|eapply IH; exact H]. Qed.

(* a signal split along time: every piece keeps class and band *)
Definition tsplit (s : sig) (cuts : list (Z * bool)) : list sig :=
  map (fun l => {| s_cls := s_cls s; s_led := l; s_band := s_band s |}) (split_at (s_led s) 0 cuts).

Lemma bands_of_same s : forall ls,
  bands_of (map (fun l => {| s_cls := s_cls s; s_led := l; s_band := s_band s |}) ls) =
  match s_band s with Some b => Some (map (fun _ => b) ls) | None => match ls with [] => Some [] | _ => None end end.
Proof.
  induction ls as [|l r IH]; cbn [map bands_of s_band]; [destruct (s_band s); reflexivity|].
  rewrite IH. destruct (s_band s); [reflexivity|]. destruct r; reflexivity.
Qed.

Lemma all_close_abs_refl tol xs : (0 <= tol)%Q -> all_close_abs tol xs xs = true.
Proof. intros H. induction xs as [|x r IH]; [reflexivity|]. cbn [all_close_abs]. rewrite IH.
  rewrite close_abs_refl; [reflexivity|exact H|reflexivity]. Qed.

Definition band_ok (b : band) : Prop := 1 <= nchan b /\ (0 < bw b)%Q.

(* the re-centred band written by concatenate has the same labels *)
Lemma recentre_labels b j :
  (label (mk_band ((label b 0 + label b (nchan b - 1)) / 2)%Q (bw b) (nchan b) 1) j == label b j)%Q.
Proof.
  unfold label. cbn [cf bw nchan align mk_band].
  assert (Hal : norm_align (nchan b) 1 = 1) by (unfold norm_align; destruct (Z.odd _); reflexivity).
  rewrite Hal. destruct align_q_vals as (_ & H1 & _). rewrite H1.
  unfold Z.sub. rewrite !inject_Z_plus, !inject_Z_opp. change (inject_Z 1) with 1%Q. change (inject_Z 0) with 0%Q. field.
Qed.

Definition band_labels_eq (o1 o2 : option band) : Prop :=
  match o1, o2 with
  | Some b1, Some b2 => nchan b1 = nchan b2 /\ (bw b1 == bw b2)%Q /\ forall j, (label b1 j == label b2 j)%Q
  | None, None => True
  | _, _ => False
  end.

Theorem split_concat_time eps rt s c1 k cs :
  (0 <= eps)%Q -> (0 <= rt)%Q -> (0 < rate (s_led s))%Q ->
  (match s_band s with Some b => (0 <= bw b)%Q | None => True end) ->
  last_cut 0 ((c1, k) :: cs) = len (s_led s) ->
  exists s', concat eps rt 0 (tsplit s ((c1, k) :: cs)) = COk s' /\
    s_cls s' = s_cls s /\ len (s_led s') = len (s_led s) /\ rate (s_led s') = rate (s_led s) /\
    ref_ok (s_led s) (t0 (s_led s')) /\
    (t0 (s_led s') = None -> t0 (s_led s) = None \/ forall c b, In (c, b) ((c1, k) :: cs) -> b = false) /\
    band_labels_eq (s_band s') (s_band s).
Proof.
  intros He Hrt Hr Hbw Hlast. set (cuts := (c1, k) :: cs) in *. set (l := s_led s) in *.
  unfold concat, tsplit. fold l.
  destruct (split_at l 0 cuts) as [|p0 rest] eqn:Hs; [discriminate|]. cbn [map].
  assert (Hp0 : rate p0 = rate l) by (apply (rate_split l cuts 0); rewrite Hs; left; reflexivity).
  cbn [s_cls s_led s_band].
  (* class check *)
  assert (C1 : forallb (fun p : sig => s_cls p =? s_cls s)
      ({| s_cls := s_cls s; s_led := p0; s_band := s_band s |} :: map (fun l0 => {| s_cls := s_cls s; s_led := l0; s_band := s_band s |}) rest) = true).
  { apply forallb_forall. intros p Hin. destruct Hin as [<-|Hin]; [apply Z.eqb_refl|].
    apply in_map_iff in Hin. destruct Hin as (l0 & <- & _). apply Z.eqb_refl. }
  rewrite C1. cbn [negb].
  assert (C2 : forallb (fun p : sig => close_rel rt (rate p0) (rate (s_led p)))
      ({| s_cls := s_cls s; s_led := p0; s_band := s_band s |} :: map (fun l0 => {| s_cls := s_cls s; s_led := l0; s_band := s_band s |}) rest) = true).
  { apply forallb_forall. intros p Hin. apply close_rel_refl; [exact Hrt|]. rewrite Hp0.
    destruct Hin as [<-|Hin]; cbn [s_led]; [rewrite Hp0; reflexivity|].
    apply in_map_iff in Hin. destruct Hin as (l0 & <- & Hl0). cbn [s_led].
    rewrite (rate_split l cuts 0 l0); [reflexivity|]. rewrite Hs. right. exact Hl0. }
  rewrite C2. cbn [negb]. change (0 =? 0) with true. cbv iota. cbn [andb negb].
  assert (Hmap : map s_led (map (fun l0 => {| s_cls := s_cls s; s_led := l0; s_band := s_band s |}) rest) = rest).
  { rewrite map_map. cbn [s_led]. apply map_id. }
  rewrite Hmap, <- Hs, Hp0.
  destruct (scan_split eps l He Hr cuts 0 None I) as (ref' & E & O & Nn). rewrite E.
  rewrite total_len_split.
  pose proof (bands_of_same s (p0 :: rest)) as HB. cbn [map] in HB.
  destruct (s_band s) as [b|] eqn:Eb.
  - rewrite HB.
    assert (C3 : forallb (fun b0 : band => close_rel rt (bw b) (bw b0)) (b :: map (fun _ => b) rest) = true).
    { apply forallb_forall. intros b0 Hin. apply close_rel_refl; [exact Hrt|].
      destruct Hin as [<-|Hin]; [reflexivity|]. apply in_map_iff in Hin. destruct Hin as (? & <- & _). reflexivity. }
    rewrite C3. cbn [negb].
    assert (C4 : forallb (fun b0 : band => all_close_abs (rt * bw b) (labels b) (labels b0)) (b :: map (fun _ => b) rest) = true).
    { apply forallb_forall. intros b0 Hin. assert (b0 = b) as ->.
      { destruct Hin as [<-|Hin]; [reflexivity|]. apply in_map_iff in Hin. destruct Hin as (? & <- & _). reflexivity. }
      apply all_close_abs_refl. apply Qmult_le_0_compat; [exact Hrt|exact Hbw]. }
    rewrite C4. eexists. split; [reflexivity|]. cbn [s_cls s_led s_band len rate t0].
    split; [reflexivity|]. split; [lia|]. split; [reflexivity|]. split; [exact O|].
    split; [intros H; destruct (Nn H) as [_ D]; exact D|].
    cbn [band_labels_eq]. split; [reflexivity|]. split; [reflexivity|]. apply recentre_labels.
  - eexists. split; [reflexivity|]. cbn [s_cls s_led s_band len rate t0].
    split; [reflexivity|]. split; [lia|]. split; [reflexivity|]. split; [exact O|].
    split; [intros H; destruct (Nn H) as [_ D]; exact D|exact I].
Qed.

(* ---------- rejection ---------- *)
Theorem reject_other_class eps rt axis p0 rest :
  (exists p, In p rest /\ s_cls p <> s_cls p0) -> concat eps rt axis (p0 :: rest) = CErr 4.
Proof.
  intros (p & Hin & Hne). unfold concat.
  assert (F : forallb (fun q => s_cls q =? s_cls p0) (p0 :: rest) = false).
  { destruct (forallb (fun q => s_cls q =? s_cls p0) (p0 :: rest)) eqn:E; [|reflexivity].
    rewrite forallb_forall in E. specialize (E p (or_intror Hin)). apply Z.eqb_eq in E. contradiction. }
  rewrite F. reflexivity.
Qed.

Lemma Qabs_ge_mult d r : (0 < r)%Q -> (1 <= Qabs d)%Q -> (1 / r <= Qabs (d / r))%Q.
Proof.
  intros Hr Hd. unfold Qdiv. rewrite Qabs_Qmult. rewrite (Qabs_pos (/ r)).
  - rewrite Qmult_1_l. rewrite <- (Qmult_1_l (/ r)) at 1. apply Qmult_le_compat_r; [exact Hd|].
    apply Qlt_le_weak. apply Qinv_lt_0_compat. exact Hr.
  - apply Qlt_le_weak. apply Qinv_lt_0_compat. exact Hr.
Qed.

(* two pieces with start times, the second displaced by d samples, |d| >= 1, sample spacing above eps *)
Theorem reject_time_gap eps rt c r tp np nq bnd d :
  (0 <= rt)%Q -> (0 < r)%Q -> (eps < 1 / r)%Q -> (1 <= Qabs d)%Q ->
  let p := {| s_cls := c; s_led := {| t0 := Some tp; rate := r; len := np |}; s_band := bnd |} in
  let q := {| s_cls := c; s_led := {| t0 := Some (tp + (inject_Z np + d) / r)%Q; rate := r; len := nq |}; s_band := bnd |} in
  concat eps rt 0 [p; q] = CErr 1.
Proof.
  intros Hrt Hr He Hd p q. subst p q. unfold concat. cbn [forallb s_cls s_led rate]. rewrite !Z.eqb_refl. cbn [andb negb].
  rewrite (close_rel_refl rt r r Hrt (Qeq_refl r)). cbn [andb negb]. change (0 =? 0) with true. cbv iota.
  cbn [map s_led scan t0 len].
  assert (F : close_abs eps (tp - inject_Z 0 / r + inject_Z (0 + np) / r)%Q (tp + (inject_Z np + d) / r)%Q = false).
  { unfold close_abs. destruct (Qle_bool _ eps) eqn:E; [|reflexivity]. apply Qle_bool_iff in E.
    assert (X : (tp - inject_Z 0 / r + inject_Z (0 + np) / r - (tp + (inject_Z np + d) / r) == - (d / r))%Q).
    { change (0 + np) with np. change (inject_Z 0) with 0%Q. field. lra. }
    rewrite X, Qabs_opp in E. pose proof (Qabs_ge_mult d r Hr Hd). lra. }
  rewrite F. reflexivity.
Qed.

(* two bands, the second displaced by d channels, |d| >= 1, relative tolerance below 1 *)
Theorem reject_freq_gap eps rt c l x y d :
  (0 <= rt)%Q -> (rt < 1)%Q -> (0 < bw x)%Q -> (bw y == bw x)%Q -> (1 <= Qabs d)%Q ->
  (label y 0 == label x (nchan x - 1) + bw x * (1 + d))%Q ->
  concat eps rt 1 [ {| s_cls := c; s_led := l; s_band := Some x |}; {| s_cls := c; s_led := l; s_band := Some y |} ] = CErr 1.
Proof.
  intros Hrt Hrt1 Hb Hby Hd Hl. unfold concat. cbn [forallb s_cls s_led s_band]. rewrite !Z.eqb_refl. cbn [andb negb].
  rewrite (close_rel_refl rt _ _ Hrt (Qeq_refl (rate l))). cbn [andb negb].
  change (1 =? 0) with false. cbv iota. cbn [map s_led].
  destruct (scan_same eps None [l; l]) as [ref|]; [|reflexivity].
  cbn [andb negb bands_of s_band forallb].
  rewrite (close_rel_refl rt _ _ Hrt (Qeq_refl (bw x))).
  destruct (close_rel rt (bw x) (bw y)); cbn [andb negb]; [|reflexivity].
  cbn [contiguous].
  assert (F : close_rel rt (label y 0 - label x (nchan x - 1))%Q (bw x) = false).
  { unfold close_rel. destruct (Qle_bool _ _) eqn:E; [|reflexivity]. apply Qle_bool_iff in E.
    assert (X : (label y 0 - label x (nchan x - 1) - bw x == bw x * d)%Q) by (rewrite Hl; ring).
    rewrite X, Qabs_Qmult, (Qabs_pos (bw x)) in E by lra.
    assert (bw x * 1 <= bw x * Qabs d)%Q by (apply Qmult_le_l; assumption).
    assert (rt * bw x < 1 * bw x)%Q by (apply Qmult_lt_compat_r; assumption). lra. }
  rewrite F. reflexivity.
Qed.

(* non-vacuity: a concrete split / concat round trip with an erased and a kept start time *)
Example split_concat_example :
  let s := {| s_cls := 5; s_led := {| t0 := Some (100#1); rate := 10#1; len := 7 |}; s_band := Some (mk_band (1400#1) (2#1) 4 0) |} in
  match concat (1#1000) (1#100000) 0 (tsplit s [(0, true); (3, false); (3, true); (7, true)]) with
  | COk s' => len (s_led s') = 7 /\ (match t0 (s_led s') with Some t => (t == 100#1)%Q | None => False end)
  | CErr _ => False end.
Proof. vm_compute. split; reflexivity. Qed.
