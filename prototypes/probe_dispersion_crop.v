(* probe: dispersion delay law, monotonicity over the band and soundness of the dedispersion crop (C05/C06) over Q *)
From Coq Require Import QArith Qround Qminmax Lqa ZArith Lia.
Open Scope Q_scope.

Definition delay (kdm f fr : Q) : Q := kdm * (/ (f * f) - / (fr * fr)).     (* K*DM*(f^-2 - fref^-2) *)

Lemma delay_antisym kdm f g : 0 < f -> 0 < g -> delay kdm f g == - delay kdm g f.
Proof. intros. unfold delay. field. split; lra. Qed.
Lemma delay_chain kdm a b c : 0 < a -> 0 < b -> 0 < c -> delay kdm a b + delay kdm b c == delay kdm a c.
Proof. intros. unfold delay. field. repeat split; lra. Qed.

Lemma inv_sq_mono a b : 0 < a -> a <= b -> / (b * b) <= / (a * a).
Proof.
  intros Ha Hab. assert (Hb : 0 < b) by lra.
  assert (Haa : 0 < a * a) by nra. assert (Hbb : 0 < b * b) by nra.
  apply Qle_shift_inv_l; [exact Haa|].
  setoid_replace (/ (b * b) * (a * a)) with ((a * a) / (b * b)) by (field; lra).
  apply Qle_shift_div_r; [exact Hbb|]. nra.
Qed.

(* within the band the delay lies between the delays at the band edges, whatever the sign of DM *)
Theorem delay_between kdm fmin fmax fr f : 0 < fmin -> fmin <= f <= fmax ->
  Qmin (delay kdm fmax fr) (delay kdm fmin fr) <= delay kdm f fr <= Qmax (delay kdm fmax fr) (delay kdm fmin fr).
Proof.
  intros H0 [H1 H2]. unfold delay.
  pose proof (inv_sq_mono fmin f H0 H1) as A. pose proof (inv_sq_mono f fmax ltac:(lra) H2) as B.
  set (u := / (fmin * fmin)) in *. set (v := / (f * f)) in *. set (w := / (fmax * fmax)) in *. set (r := / (fr * fr)).
  destruct (Qlt_le_dec kdm 0) as [Hk|Hk].
  - (* DM < 0 : increasing in f *)
    split.
    + apply Qle_trans with (kdm * (u - r)); [apply Q.le_min_r|]. nra.
    + apply Qle_trans with (kdm * (w - r)); [nra|apply Q.le_max_l].
  - split.
    + apply Qle_trans with (kdm * (w - r)); [apply Q.le_min_l|]. nra.
    + apply Qle_trans with (kdm * (u - r)); [nra|apply Q.le_max_r].
Qed.

(* coherent_dedispersion crop:  start = ceil(-min(0, dtop, dbot)),  stop = N - ceil(max(0, dtop, dbot))  (delays in samples) *)
Definition crop_start (dtop dbot : Q) : Z := Qceiling (- Qmin 0 (Qmin dtop dbot)).
Definition crop_stop (N : Z) (dtop dbot : Q) : Z := (N - Qceiling (Qmax 0 (Qmax dtop dbot)))%Z.

Theorem crop_sound N dtop dbot d n :
  Qmin dtop dbot <= d <= Qmax dtop dbot ->                      (* d = sample delay of any frequency of the band *)
  (crop_start dtop dbot <= n < crop_stop N dtop dbot)%Z ->
  0 <= inject_Z n + d <= inject_Z (N - 1).
Proof.
  intros [Hlo Hhi] [Hn1 Hn2]. unfold crop_start, crop_stop in *.
  pose proof (Qle_ceiling (- Qmin 0 (Qmin dtop dbot))) as C1.
  pose proof (Qle_ceiling (Qmax 0 (Qmax dtop dbot))) as C2.
  assert (A1 : - Qmin 0 (Qmin dtop dbot) <= inject_Z n).
  { apply Qle_trans with (1:=C1). rewrite <- Zle_Qle. exact Hn1. }
  assert (A2 : inject_Z n + Qmax 0 (Qmax dtop dbot) <= inject_Z (N - 1)).
  { assert (n + Qceiling (Qmax 0 (Qmax dtop dbot)) <= N - 1)%Z by lia.
    rewrite Zle_Qle, inject_Z_plus in H. lra. }
  pose proof (Q.le_min_r 0 (Qmin dtop dbot)). pose proof (Q.le_max_r 0 (Qmax dtop dbot)).
  split; lra.
Qed.
Print Assumptions crop_sound.
