(* Proofs/PolycoTimeAtGen.v -- C08: Model/PolycoTimeAt is built from the terms T14 regenerates from PhasePredictor.time_at on every run
   (Gen/GenPolyco.v: the strict enclosure test of the range check, ph_end, the searched value, the argument and residual handed to the
   root finder, the returned time); the closures and the root-finder call are pinned by the translator. *)
From Coq Require Import ZArith QArith List Bool.
From PB Require Import Model.Polyco Model.PolycoTimeAt Gen.GenPolyco.
Import ListNotations.
Open Scope Q_scope.

Theorem ta_check_generated eps es a b r ph :
  ta_check eps es ((a, b) :: r) ph =
  match predict eps es a, predict eps es b, ta_check eps es r ph with
  | Some pa, Some pb, Some c => Some (gen_ta_enclosed pa pb ph || c)
  | _, _, _ => None
  end.
Proof. reflexivity. Qed.

Theorem ta_ph_end_generated eps all e r ph :
  ta_ph_end eps all (e :: r) ph =
  match predict eps all (gen_span_end e), ta_ph_end eps all r ph with
  | Some p, Some l => Some (gen_ta_ph_end p ph :: l)
  | _, _ => None
  end.
Proof. reflexivity. Qed.

Theorem ta_guess_generated eps es ph :
  ta_guess eps es ph =
  match ta_ph_end eps es es ph with
  | Some l => match nth_error es (searchsorted l gen_ta_searched) with Some e => Some (e_tmid e) | None => None end
  | None => None
  end.
Proof. reflexivity. Qed.

Theorem time_at_generated solver eps es ph guess :
  time_at solver eps es ph guess =
  match ta_check eps es (intervals eps es) ph with
  | None => TaOther
  | Some false => TaValueError
  | Some true =>
      match (match guess with Some g => Some g | None => ta_guess eps es ph end) with
      | None => TaOther
      | Some g =>
          match solver (fun x => match predict eps es (gen_ta_arg g x) with Some p => Some (gen_ta_residual p ph) | None => None end) with
          | Some x => TaTime (gen_ta_result g x)
          | None => TaOther
          end
      end
  end.
Proof. reflexivity. Qed.
