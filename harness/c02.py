"""C02: channel frequency labels follow the band model and survive frequency slicing.
(P) Props/C02.v (exact Q; alignment constants from the table generated from core.py); (T) model vs
implementation on constructed and sliced signals; (M) C02_ok / C02_slice_ok evaluated on observations."""
from fractions import Fraction
import numpy as np
import astropy.units as u
from astropy.time import Time
import pulsarbat as pb
from harness.common import qlit, zlit, optlit, listlit
from harness import exact as X

VFILES = ['Lib/PySlice.v', 'Gen/GenConsts.v', 'Model/Band.v', 'Proofs/BandProofs.v', 'Gen/GenBand.v', 'Proofs/BandGen.v',
          'Model/Ledger.v', 'Model/Getitem.v', 'Gen/GenGetitem.v', 'Proofs/GetitemProofs.v', 'Props/C02.v']
ALIGN = {'bottom': 0, 'center': 1, 'top': 2}

HEADER = '''From Coq Require Import ZArith QArith List. Import ListNotations. Open Scope Z_scope.
From PB Require Import Lib.PySlice Model.Band Model.Ledger Model.Getitem.
Definition B (c b : Q) (n a : Z) (ls : list Q) (mn mx bwd : Q) : bobs :=
  {| bo_cf := c; bo_bw := b; bo_n := n; bo_align := a; bo_labels := ls; bo_min := mn; bo_max := mx; bo_bandwidth := bwd |}.
(* construction: monitor (thousands) + model/impl diff *)
Definition chk_new (c b : Q) (n a : Z) (tol : Q) (o : bobs) : Z :=
  bobs_diff tol (bobs_of_model (mk_band c b n a)) o + 1000 * C02_ok tol o.
(* slicing chain from a constructed band: lo_obs is read back from channel-coded data *)
Definition chk_slices (c b : Q) (n a : Z) (sl : list (option Z * option Z)) (tol : Q) (orig : bobs) (res : option bobs) (lo_obs : Z) : Z :=
  match freq_slices (mk_band c b n a) sl, res with
  | BOk b' lo, Some o => bobs_diff tol (bobs_of_model b') o + (if lo =? lo_obs then 0 else 64)
                         + 1000 * (C02_ok tol o + C02_slice_ok tol orig o lo_obs)
  | BErr _, None => 0
  | BOk _ _, None => 128
  | BErr _, Some _ => 256
  end.
Definition chk_step (c b : Q) (n a : Z) (lo hi st : option Z) (raised : bool) : Z :=
  match freq_slice (mk_band c b n a) lo hi st with
  | BOk _ _ => if raised then 128 else 0
  | BErr _ => if raised then 0 else 256
  end.
(* index dispatch z[index]: outcome 0 returned / 1 IndexError / 2 another exception; observed length, first retained sample, stride
   (from time-coded data), sample-rate divisor, band and first retained channel *)
(* baseband classes: the constructor ties chan_bw to sample_rate (C16), so a time step > 1 narrows every channel by that step *)
Definition rebw (bb : bool) (st : Z) (x : band) : band :=
  if bb && (1 <? st) then {| cf := cf x; bw := (bw x / inject_Z st)%Q; nchan := nchan x; align := align x |} else x.
Definition chk_getitem (radio bb : bool) (L : Z) (c b : Q) (n a : Z) (index : list item) (tol : Q)
                       (outcome olen ooff ostride ostep : Z) (ob : option bobs) (olo : Z) : Z :=
  let l := {| t0 := None; rate := 1; len := L |} in
  match (if radio then radio_getitem l (mk_band c b n a) index else signal_getitem l index) with
  | GOk l' off st bo =>
      if negb (outcome =? 0) then 128 else
      (if (len l' =? olen) && ((olen =? 0) || (off =? ooff)) && ((olen <=? 1) || (st =? ostride)) && ((if 1 <? st then st else 1) =? ostep) then 0 else 1)
      + match bo, ob with
        | Some (b', lo), Some o => bobs_diff tol (bobs_of_model (rebw bb st b')) o + (if (olen =? 0) || (lo =? olo) then 0 else 64)
        | None, Some o => bobs_diff tol (bobs_of_model (rebw bb st (mk_band c b n a))) o + (if (olen =? 0) || (olo =? 0) then 0 else 64)
        | _, None => 0
        end
  | GIndex => if outcome =? 1 then 0 else 256
  | _ => if outcome =? 2 then 0 else 512
  end.
'''


def item_lit(it):
    if isinstance(it, slice):
        return f'(ISlice {optlit(it.start, zlit)} {optlit(it.stop, zlit)} {optlit(it.step, zlit)})'
    return 'IOther'


def bobs(z):
    f = z.channel_freqs
    ls = [X.hz(x) for x in f]
    return (f'(B {qlit(X.hz(z.center_freq))} {qlit(X.hz(z.chan_bw))} {z.nchan} {ALIGN[z.freq_align]} '
            f'{listlit(ls, qlit)} {qlit(X.hz(z.min_freq))} {qlit(X.hz(z.max_freq))} {qlit(X.hz(z.bandwidth))})')


def tol_for(cf, bw, n):
    return (abs(cf) + n * bw) * Fraction(1, 2 ** 49)


def rand_freq(rng, lo=-2, hi=10.5):
    v = 10 ** rng.uniform(lo, hi)
    if rng.random() < 0.3:
        v = float(round(v, 3 - int(np.floor(np.log10(v)))))
    unit = rng.choice([u.Hz, u.kHz, u.MHz, u.GHz])
    return (v * u.Hz).to(unit)


def chan_coded(L, nchan, tail, dtype):
    a = np.arange(nchan, dtype=np.float64).reshape((1, nchan) + (1,) * len(tail))
    return np.ascontiguousarray(np.broadcast_to(a, (L, nchan) + tuple(tail))).astype(dtype)


def run(ctx):
    rng = ctx.rng
    ctx.rule = ('radio-signal classes x nchan 1..65 x 3 alignments x center_freq/chan_bw over 12 decades and 4 units; '
                'channel slices a:b with negative/open/out-of-range bounds, nested up to depth 4, combined with time slices; '
                'Stokes component selection; all a:b for nchan <= 9 exhaustively in the thorough tier. '
                'non-trivial = nchan >= 2; distinct by (class, nchan, align, cf, bw, slices).')
    ctx.trusted = ['translator T4 translate/py_ledger2coq.py (label formula, band edges, _freq_slice as exact-rational terms)', 'Coq 8.16.1 kernel; vm_compute', 'translator T2 (align table, label formula text)',
                   'numpy float64 label arithmetic within 2^-49*(|cf|+n*bw) of exact (measured by the diff)',
                   'Lib/PySlice.v = CPython slice.indices']
    ctx.assumptions = ['|cf|/bw <= 2^30 (float64 labels resolve the channel spacing)']
    ctx.regen()
    built = ctx.build(['Props/C02.vo'])
    ctx.count_obligations(VFILES)
    if built:
        ctx.assumptions_of('Props/C02.v', allowed=set())

    items, meta = [], []
    ncons = 250 if ctx.tier == 'quick' else 3000
    nsl = 350 if ctx.tier == 'quick' else 5000

    def mk(cls, nchan, al, cf, bw, L=3, start=None):
        tail = {'FullStokesSignal': (4,), 'DualPolarizationSignal': (2,)}.get(cls, ())
        if rng.random() < 0.2:
            tail = tail + (rng.choice([1, 2]),)
        dt = np.complex128 if cls in ('BasebandSignal', 'DualPolarizationSignal') else np.float64
        kw = dict(sample_rate=bw if cls in ('BasebandSignal', 'DualPolarizationSignal') else rand_freq(rng, -3, 9),
                  center_freq=cf, freq_align=al, start_time=start)
        if cls in ('RadioSignal', 'IntensitySignal', 'FullStokesSignal'):
            kw['chan_bw'] = bw
        if cls == 'DualPolarizationSignal':
            kw['pol_type'] = 'linear'
        return getattr(pb, cls)(chan_coded(L, nchan, tail, dt), **kw)

    def rand_band():
        nchan = rng.choice([1, 2, 3, 4, 5, 6, 7, 8, 9, 16, 17, 32, 33, 64, 65, rng.randint(1, 65)])
        al = rng.choice(['bottom', 'center', 'top'])
        bw = rand_freq(rng, -2, 9)
        # keep |cf|/bw <= 2^30
        cf = rand_freq(rng, -2, 10.5)
        while X.hz(cf) / X.hz(bw) > 2 ** 30:
            cf = rand_freq(rng, -2, 10.5)
        if rng.random() < 0.1:
            cf = 0 * u.Hz
        if rng.random() < 0.05:
            cf = -cf
        return nchan, al, cf, bw

    for k in range(ncons):
        cls = rng.choice(X.RADIO)
        nchan, al, cf, bw = rand_band()
        z = mk(cls, nchan, al, cf, bw)
        inp = dict(op='construct', cls=cls, nchan=nchan, align=al, cf=str(cf), bw=str(bw))
        ctx.seen(inp, nontrivial=nchan >= 2)
        ctx.count('construct')
        ctx.count('odd' if nchan % 2 else 'even')
        tol = tol_for(X.hz(cf), X.hz(z.chan_bw), nchan)
        items.append(f'chk_new {qlit(X.hz(cf))} {qlit(X.hz(z.chan_bw))} {nchan} {ALIGN[al]} {qlit(tol)} {bobs(z)}')
        meta.append(dict(inp=inp, impl=dict(align=z.freq_align, f0=str(z.channel_freqs[0]))))

    # public setters: a signal whose band attributes are re-assigned (after its labels were already read / it was already sliced)
    # is still a radio signal -- its labels must follow the NEW band, and so must later slices
    for k in range(ncons // 3):
        cls = rng.choice(X.RADIO)
        nchan, al, cf, bw = rand_band()
        z = mk(cls, nchan, al, cf, bw)
        _ = z.channel_freqs, z.max_freq
        if rng.random() < 0.5:
            _ = z[:, : max(1, nchan - 1)]
        nchan2, al2, cf2, bw2 = rand_band()
        what = rng.sample(['center_freq', 'chan_bw', 'freq_align'], rng.randint(1, 3))
        if cls in ('BasebandSignal', 'DualPolarizationSignal') and 'chan_bw' in what:
            what.remove('chan_bw')
            what.append('center_freq')
        while 'chan_bw' not in what and 'center_freq' in what and X.hz(cf2) / X.hz(z.chan_bw) > 2 ** 30:
            cf2 = rand_freq(rng, -2, 10.5)
        while 'chan_bw' in what and X.hz(cf2 if 'center_freq' in what else cf) / X.hz(bw2) > 2 ** 30:
            bw2 = rand_freq(rng, 2, 9)
        inp = dict(op='reassign', cls=cls, nchan=nchan, align=al, cf=str(cf), bw=str(bw), set=sorted(set(what)),
                   new=dict(cf=str(cf2), bw=str(bw2), align=al2))
        ctx.seen(inp, nontrivial=nchan >= 2)
        ctx.count('reassign')
        try:
            if 'center_freq' in what:
                z.center_freq = cf2
            else:
                cf2 = cf
            if 'chan_bw' in what:
                z.chan_bw = bw2
            if 'freq_align' in what:
                z.freq_align = al2
            else:
                al2 = al
        except Exception as e:
            ctx.fail('setter_raised', inp, impl=repr(e))
            continue
        tol = tol_for(X.hz(cf2), X.hz(z.chan_bw), nchan)
        items.append(f'chk_new {qlit(X.hz(cf2))} {qlit(X.hz(z.chan_bw))} {nchan} {ALIGN[al2]} {qlit(tol)} {bobs(z)}')
        meta.append(dict(inp=inp, impl=dict(align=z.freq_align, f0=str(z.channel_freqs[0]))))
        if nchan >= 2:
            a = rng.randint(0, nchan - 1)
            b = rng.randint(a + 1, nchan)
            y = z[:, a:b]
            items.append(f'chk_slices {qlit(X.hz(cf2))} {qlit(X.hz(z.chan_bw))} {nchan} {ALIGN[al2]} [(Some {a}, Some {b})] {qlit(tol)} {bobs(z)} (Some {bobs(y)}) {a}')
            meta.append(dict(inp=dict(inp, then_slice=[a, b]), impl=dict(nchan=y.nchan, cf=str(y.center_freq), align=y.freq_align)))

    # Stokes / trailing-axis component selection on the signal AS CONSTRUCTED (any alignment, no frequency slice in between):
    # time and frequency labels must be those of the original
    for k in range(ncons // 3):
        nchan, al, cf, bw = rand_band()
        start = Time('2021-03-04T05:06:07', precision=9) if rng.random() < 0.5 else None
        z = mk('FullStokesSignal', nchan, al, cf, bw, L=4, start=start)
        comp = rng.choice('IQUV')
        how = rng.choice(['key', 'attr'])
        inp = dict(op='stokes_direct', cls='FullStokesSignal', nchan=nchan, align=al, cf=str(cf), bw=str(bw), comp=comp, how=how)
        ctx.seen(inp, nontrivial=nchan >= 2)
        ctx.count('stokes_direct')
        try:
            y = z[comp] if how == 'key' else getattr(z, 'stokes' + comp)
        except Exception as e:
            ctx.fail('stokes_selection_raised', inp, impl=repr(e))
            continue
        if type(y) is not pb.IntensitySignal or y.start_time != z.start_time or y.sample_rate != z.sample_rate or len(y) != len(z) or y.nchan != z.nchan:
            ctx.fail('stokes_selection_changed_time_or_shape', inp, impl=repr(y))
            continue
        tol = tol_for(X.hz(cf), X.hz(z.chan_bw), nchan)
        items.append(f'chk_new {qlit(X.hz(cf))} {qlit(X.hz(z.chan_bw))} {nchan} {ALIGN[al]} {qlit(tol)} {bobs(y)}')
        meta.append(dict(inp=inp, impl=dict(align=y.freq_align, f0=str(y.channel_freqs[0]))))
        if not np.array_equal(y.channel_freqs.to_value(u.Hz), z.channel_freqs.to_value(u.Hz)):
            ctx.fail('stokes_selection_changed_frequency_labels', inp, impl=[str(y.channel_freqs[0]), str(z.channel_freqs[0])])

    def rb(n):
        r = rng.random()
        if r < 0.25:
            return None
        if r < 0.35:
            return rng.choice([0, n, -n, n + 1, -n - 1, -1, 1])
        return rng.randint(-n - 1, n + 1)

    def do_chain(cls, nchan, al, cf, bw, chain, tslice=None, stokes=None):
        start = Time('2021-03-04T05:06:07', precision=9) if rng.random() < 0.5 else None
        z = mk(cls, nchan, al, cf, bw, L=5, start=start)
        inp = dict(op='freq_slices', cls=cls, nchan=nchan, align=al, cf=str(cf), bw=str(bw),
                   chain=[list(c) for c in chain], tslice=tslice, stokes=stokes)
        ctx.seen(inp, nontrivial=nchan >= 2)
        ctx.count(f'chain_depth_{len(chain)}')
        y = z
        err = None
        try:
            for ci, (a, b) in enumerate(chain):
                if tslice is not None and ci == 0:
                    y = y[tslice[0]:tslice[1], a:b]
                else:
                    y = y[:, a:b]
            if stokes is not None:
                y0 = y
                y = y[stokes]
                if type(y) is not pb.IntensitySignal or y.start_time != y0.start_time or y.sample_rate != y0.sample_rate \
                   or len(y) != len(y0) or y.nchan != y0.nchan:
                    ctx.fail('stokes_selection_changed_time_or_shape', inp, impl=repr(y))
        except Exception as e:
            err = e
            ctx.count('raised:' + type(e).__name__)
        tol = tol_for(X.hz(cf), X.hz(z.chan_bw), nchan)
        sl = listlit([f'({optlit(a, zlit)}, {optlit(b, zlit)})' for a, b in chain])
        if err is None:
            d = np.asarray(y.data).reshape(len(y), y.nchan, -1).real
            lo_obs = int(round(float(d[0, 0, 0]))) if len(y) else 0
            if len(y) and not np.array_equal(d[0, :, 0], lo_obs + np.arange(y.nchan)):
                ctx.fail('selected_channels_not_contiguous', inp, impl=d[0, :, 0].tolist())
            res = f'(Some {bobs(y)})'
        else:
            lo_obs, res = 0, 'None'
        items.append(f'chk_slices {qlit(X.hz(cf))} {qlit(X.hz(z.chan_bw))} {nchan} {ALIGN[al]} {sl} {qlit(tol)} {bobs(z)} {res} {lo_obs}')
        meta.append(dict(inp=inp, impl=f'raised {type(err).__name__}: {err}' if err else dict(nchan=y.nchan, cf=str(y.center_freq), align=y.freq_align)))

    for k in range(nsl):
        cls = rng.choice(X.RADIO)
        nchan, al, cf, bw = rand_band()
        depth = rng.choice([1, 1, 1, 2, 2, 3, 4])
        chain, n = [], nchan
        for _ in range(depth):
            a, b = rb(n), rb(n)
            chain.append((a, b))
            lo = 0 if a is None else max(0, a + n) if a < 0 else min(a, n)
            hi = n if b is None else max(0, b + n) if b < 0 else min(b, n)
            n = hi - lo
            if n <= 0:
                break
        tslice = (rng.randint(0, 2), rng.randint(3, 6)) if rng.random() < 0.3 else None
        stokes = rng.choice('IQUV') if cls == 'FullStokesSignal' and rng.random() < 0.6 else None
        do_chain(cls, nchan, al, cf, bw, chain, tslice, stokes)

    if ctx.tier == 'thorough':
        for nchan in range(1, 10):
            for al in ('bottom', 'center', 'top'):
                for a in [None] + list(range(-nchan - 1, nchan + 2)):
                    for b in [None] + list(range(-nchan - 1, nchan + 2)):
                        do_chain('RadioSignal', nchan, al, 1.4 * u.GHz, 3.125 * u.MHz, [(a, b)])
        ctx.extra['exhaustive_slices_nchan_le_9'] = True

    # malformed stream: steps other than 1 / zero / negative on the frequency axis
    for k in range(40 if ctx.tier == 'quick' else 400):
        nchan, al, cf, bw = rand_band()
        z = mk('RadioSignal', nchan, al, cf, bw)
        a, b = rb(nchan), rb(nchan)
        st = rng.choice([2, 3, -1, 0, 1, None])
        raised = False
        try:
            z[:, a:b:st]
        except (AssertionError, ValueError):
            raised = True
        inp = dict(op='freq_slice_step', nchan=nchan, a=a, b=b, step=st)
        ctx.seen(inp, nontrivial=True)
        ctx.count('malformed')
        items.append(f'chk_step {qlit(X.hz(cf))} {qlit(X.hz(z.chan_bw))} {nchan} {ALIGN[al]} {optlit(a, zlit)} {optlit(b, zlit)} {optlit(st, zlit)} {"true" if raised else "false"}')
        meta.append(dict(inp=inp, impl='raised' if raised else 'returned'))


    # ---- the index dispatch of __getitem__: any tuple of slices / integers / lists / Ellipsis / None, on every class
    def rsl(n, steps):
        return slice(rb(n), rb(n), rng.choice(steps))

    def other():
        return rng.choice([0, 1, -1, Ellipsis, None, [0], np.int64(0), np.array([0]), True, 1.0, (0,), 'x'])
    for k in range(300 if ctx.tier == 'quick' else 4000):
        cls = rng.choice(['Signal'] + list(X.RADIO))
        radio = cls != 'Signal'
        nchan, al, cf, bw = rand_band()
        nchan = min(nchan, 9)
        L = rng.choice([0, 1, 2, 5, 8, 12])
        tail = {'FullStokesSignal': (4,), 'DualPolarizationSignal': (2,)}.get(cls, ())
        shape = (L, nchan) + tail + (3,)
        dt = np.complex128 if cls in ('BasebandSignal', 'DualPolarizationSignal') else np.float64
        data = np.zeros(shape, dtype=dt)
        data += (np.arange(L) * 100).reshape((L,) + (1,) * (len(shape) - 1))
        data += np.arange(nchan).reshape((1, nchan) + (1,) * (len(shape) - 2))
        start = Time('2021-03-04T05:06:07', precision=9) if rng.random() < 0.5 else None
        kw = dict(sample_rate=bw if cls in ('BasebandSignal', 'DualPolarizationSignal') else rand_freq(rng, -3, 9), start_time=start)
        if radio:
            kw.update(center_freq=cf, freq_align=al)
        if cls in ('RadioSignal', 'IntensitySignal', 'FullStokesSignal'):
            kw['chan_bw'] = bw
        if cls == 'DualPolarizationSignal':
            kw['pol_type'] = 'linear'
        z = getattr(pb, cls)(data, **kw)
        index = []
        r = rng.random()
        if r < 0.03:
            pass                                              # z[()]
        else:
            index.append(rsl(L, [None, None, None, 1, 2, 3, 0, -1]) if rng.random() < 0.85 else other())
            if rng.random() < 0.75:
                if radio:
                    index.append(rsl(nchan, [None, None, None, 1, 1, 2, -1, 0]) if rng.random() < 0.8 else other())
                else:
                    index.append(rng.choice([slice(None), slice(0, 1), 0, nchan - 1, [0]]))
                if rng.random() < 0.6:
                    for _ in tail:
                        index.append(slice(None))
                    if rng.random() < 0.7:
                        index.append(rng.choice([0, 2, -1, slice(0, 2), slice(None), slice(1, None), [0, 2]]))
        if len(index) == 1 and rng.random() < 0.5 and not isinstance(index[0], tuple):
            pyindex = index[0]                                # the non-tuple form z[x]
        else:
            pyindex = tuple(index)
        inp = dict(op='getitem', cls=cls, L=L, nchan=nchan, align=al, cf=str(cf), bw=str(bw), index=repr(pyindex), started=start is not None)
        ctx.seen(inp, nontrivial=len(index) >= 2)
        ctx.count('getitem')
        if cls == 'FullStokesSignal' and isinstance(pyindex, str):
            # a bare string on a FullStokesSignal is a component name (the pinned FullStokesSignal.__getitem__): an unknown one is KeyError
            try:
                z[pyindex]
                ctx.fail('unknown_stokes_component_accepted', inp)
            except KeyError:
                ctx.count('getitem_stokes_keyerror')
            except Exception as e:
                ctx.fail('unknown_stokes_component_wrong_error', inp, impl=repr(e))
            continue
        y, outcome, exc = None, 0, None
        try:
            y = z[pyindex]
        except IndexError as e:
            outcome, exc = 1, e
        except Exception as e:
            outcome, exc = 2, e
        ctx.count(f'getitem_outcome_{outcome}')
        olen = ooff = ostride = ostep = olo = 0
        ob = 'None'
        if outcome == 0:
            olen = len(y)
            first = np.asarray(y.data).real.reshape(olen, -1)[:, 0] if olen else np.zeros(0)
            if olen:
                v0 = int(round(float(first[0])))
                ooff, olo = v0 // 100, v0 % 100
                if olen > 1:
                    ostride = (int(round(float(first[1]))) - v0) // 100
                # the property itself: the first retained sample keeps its absolute time
                if start is not None:
                    want = X.hz(z.sample_rate)
                    got = (y.start_time - z.start_time).to_value(u.s)
                    if y.start_time is None or abs(Fraction(got) - Fraction(ooff) / want) > Fraction(1, 10 ** 9) + Fraction(ooff, 10 ** 14) / want:
                        ctx.fail('getitem_start_time_not_of_first_retained_sample', inp, impl=float(got), model=float(Fraction(ooff) / want))
            if start is None and y.start_time is not None:
                ctx.fail('getitem_acquired_start_time', inp, impl=str(y.start_time))
            if type(y) is not type(z):
                ctx.fail('getitem_changed_type', inp, impl=type(y).__name__)
            ostep = int(round(float((z.sample_rate / y.sample_rate).to_value(u.one))))
            if abs(float((z.sample_rate / y.sample_rate).to_value(u.one)) - ostep) > 1e-9:
                ctx.fail('getitem_sample_rate_not_divided_by_step', inp, impl=str(y.sample_rate))
            if radio:
                ob = f'(Some {bobs(y)})'
        tol = tol_for(X.hz(cf), X.hz(bw), nchan)
        items.append(f'chk_getitem {"true" if radio else "false"} {"true" if cls in ("BasebandSignal", "DualPolarizationSignal") else "false"} {L} {qlit(X.hz(cf))} {qlit(X.hz(bw))} {nchan} {ALIGN[al]} '
                     f'{listlit([item_lit(i) for i in index])} {qlit(tol)} {outcome} {olen} {ooff} {ostride} {ostep} {ob} {olo}')
        meta.append(dict(inp=inp, impl=f'raised {type(exc).__name__}: {exc}' if exc is not None else dict(len=olen, off=ooff, stride=ostride, lo=olo)))

    res = ctx.run_cases(HEADER, items, shard=max(60, len(items) // 32 + 1))
    if res is None:
        return
    for r, m in zip(res, meta):
        corr, mon = r % 1000, r // 1000
        if corr == 128 and m['inp'].get('op') == 'freq_slices':
            # a non-empty contiguous channel range (accepted by the model) must return a signal
            ctx.fail('valid_channel_range_raised', m['inp'], impl=m['impl'])
            continue
        if mon:
            ctx.fail(f'C02_ok/C02_slice_ok clauses {mon}', m['inp'], impl=m['impl'],
                     note='1 label count, 2 label formula, 4 alignment (odd->center), 8 band edges/width, 16 sliced labels = selected labels, 32 chan_bw kept')
        if corr and m['inp'].get('op') == 'getitem':
            ctx.mismatch(f'index dispatch model vs implementation (code {corr}: 1 ledger, 2-32 band, 64 first channel, 128 model returns / code raised, '
                         f'256 model IndexError, 512 model other error)', m['inp'], impl=m['impl'])
        elif corr:
            ctx.mismatch(f'band model vs implementation (code {corr})', m['inp'], impl=m['impl'])
