(* probe: optimality of the T1-generated next_fast_len, part 2: outer loops and main theorem *)
From PB Require Import Gen.GenUtils Proofs.FastLenA.
From Coq Require Import ZArith Lia List Bool.
Open Scope Z_scope.
Import next_fast_len.

Definition F75 (c d : nat) : Z := 5 ^ Z.of_nat c * 7 ^ Z.of_nat d.
Definition cand (i j c d : nat) : Z := val (F75 c d) i j.
Definition smooth (m : Z) : Prop := exists i j c d, m = cand i j c d.

Lemma F75_pos c d : 0 < F75 c d.
Proof. unfold F75. assert (0 < 5 ^ Z.of_nat c) by (apply Z.pow_pos_nonneg; lia).
  assert (0 < 7 ^ Z.of_nat d) by (apply Z.pow_pos_nonneg; lia). nia. Qed.
Lemma F75_S_c c d : F75 (S c) d = 5 * F75 c d.
Proof. unfold F75. rewrite Nat2Z.inj_succ, Z.pow_succ_r by lia. ring. Qed.
Lemma F75_S_d c d : F75 c (S d) = 7 * F75 c d.
Proof. unfold F75. rewrite Nat2Z.inj_succ, Z.pow_succ_r by lia. ring. Qed.
Lemma F75_odd c d : Z.odd (F75 c d) = true.
Proof. induction c. - induction d. + reflexivity. + rewrite F75_S_d, Z.odd_mul, IHd. reflexivity.
  - rewrite F75_S_c, Z.odd_mul, IHc. reflexivity. Qed.
Lemma F75_mono_c c c' d : (c <= c')%nat -> F75 c d <= F75 c' d.
Proof. intros H. induction H; [lia|]. rewrite F75_S_c. pose proof (F75_pos m d). lia. Qed.
Lemma F75_mono_d c d d' : (d <= d')%nat -> F75 c d <= F75 c d'.
Proof. intros H. induction H; [lia|]. rewrite F75_S_d. pose proof (F75_pos c m). lia. Qed.
Lemma cand_ge_F i j c d : F75 c d <= cand i j c d.
Proof. apply val_ge_f. apply F75_pos. Qed.

Definition Gok (N g : Z) : Prop := g = 2 * N \/ (smooth g /\ N < g).
Definition acc3 (N g : Z) (c d : nat) : Prop :=
  forall i j c' d', ((d' < d)%nat \/ (d' = d /\ (c' < c)%nat)) -> N <= cand i j c' d' -> g <= cand i j c' d'.

(* ---------- doubling loop (generated loop2) ---------- *)
Lemma loop2_step fuel N f7 g f75 x :
  loop2 (S fuel) (mk N f7 g f75 x) =
    if x <? N then loop2 fuel (mk N f7 g f75 (x * 2)) else Normal (mk N f7 g f75 x).
Proof. cbn [loop2 v_N v_f7 v_guess v_f75 v_x]. destruct (x <? N); reflexivity. Qed.

Lemma loop2_spec : forall fuel N f7 g f75 f i,
  0 < f -> 0 < N -> N <= val f i 0 * 2 ^ (Z.of_nat fuel - 1) ->
  exists i', loop2 fuel (mk N f7 g f75 (val f i 0)) = Normal (mk N f7 g f75 (val f i' 0))
             /\ (i <= i')%nat /\ N <= val f i' 0 /\ (i' = i \/ val f i' 0 < 2 * N).
Proof.
  induction fuel as [|fuel IH]; intros N f7 g f75 f i Hf HN Hfu.
  - exfalso. change (Z.of_nat 0 - 1) with (-1) in Hfu. rewrite Z.pow_neg_r in Hfu by lia. lia.
  - rewrite loop2_step. destruct (val f i 0 <? N) eqn:E.
    + apply Z.ltb_lt in E.
      replace (val f i 0 * 2) with (val f (S i) 0) by (rewrite val_S_i; ring).
      destruct (IH N f7 g f75 f (S i) Hf HN) as (i' & H1 & H2 & H3 & H4).
      { rewrite val_S_i. destruct fuel as [|fuel].
        - change (Z.of_nat 1 - 1) with 0 in Hfu. rewrite Z.pow_0_r in Hfu. lia.
        - replace (Z.of_nat (S (S fuel)) - 1) with (Z.succ (Z.of_nat (S fuel) - 1)) in Hfu by lia.
          rewrite Z.pow_succ_r in Hfu by lia. lia. }
      exists i'. split; [exact H1|]. split; [lia|]. split; [exact H3|]. right.
      destruct H4 as [->|H4]; [rewrite val_S_i; lia|exact H4].
    + apply Z.ltb_ge in E. exists i. repeat split; auto.
Qed.

Section Outer.
Variable fuel0 : nat.
Variable L : nat.
Variable N : Z.
Hypothesis HN : 0 < N.
Hypothesis HL : N <= 2 ^ Z.of_nat L.
Hypothesis Hfuel0 : (2 * L + 4 <= fuel0)%nat.

Lemma pow2_bound i f : 0 < f -> val f i 0 < 2 * N -> (i <= L)%nat.
Proof.
  intros Hf H. destruct (Nat.le_gt_cases i L) as [|Hgt]; [assumption|exfalso].
  assert (2 ^ Z.of_nat (S L) <= 2 ^ Z.of_nat i) by (apply Z.pow_le_mono_r; lia).
  rewrite Nat2Z.inj_succ, Z.pow_succ_r in H0 by lia.
  unfold val in H. rewrite Z.pow_0_r, Z.mul_1_r in H.
  assert (0 < 2 ^ Z.of_nat i) by (apply Z.pow_pos_nonneg; lia). nia.
Qed.

(* one full pass for a fixed odd f = F75 c d : doubling then walk *)
Lemma pass_spec f7 g f75x c d :
  g <= 2 * N -> Gok N g -> acc3 N g c d ->
  match loop2 fuel0 (mk N f7 g f75x (F75 c d)) with
  | Normal s1 =>
    match loop1 fuel0 s1 with
    | Normal s2 => v_N s2 = N /\ v_f7 s2 = f7 /\ v_f75 s2 = f75x /\ v_guess s2 <= g /\ Gok N (v_guess s2)
                   /\ acc3 N (v_guess s2) (S c) d
    | Ret v => v = N /\ smooth N
    | _ => False
    end
  | _ => False
  end.
Proof.
  intros Hg HG Hacc. set (f := F75 c d). pose proof (F75_pos c d) as Hf. fold f in Hf.
  destruct (loop2_spec fuel0 N f7 g f75x f 0 Hf HN) as (i0 & E2 & _ & Hge & Hi0).
  { rewrite val_00. apply Z.le_trans with (2 ^ Z.of_nat L); [exact HL|].
    apply Z.le_trans with (1 * 2 ^ (Z.of_nat fuel0 - 1)); [|apply Z.mul_le_mono_nonneg_r; [apply Z.pow_nonneg|]; lia].
    rewrite Z.mul_1_l. apply Z.pow_le_mono_r; lia. }
  rewrite val_00 in E2. rewrite E2.
  assert (Hi0L : (i0 <= L)%nat) by (destruct Hi0 as [->|Hi0]; [lia|apply (pow2_bound i0 f Hf Hi0)]).
  pose proof (loop1_spec fuel0 N f7 f75x f g i0 0 Hf (F75_odd c d) HN) as S1.
  pose proof (loop1_fuel fuel0 N f7 f75x f g i0 0 Hf (F75_odd c d) HN) as T1.
  assert (Hacc0 : acc N f g i0 0).
  { intros i' j' [Hc|[-> Hc]] Hv; [lia|].
    assert (val f (S i0) 0 <= val f i' 0) by (apply val_mono_i; [assumption|lia]).
    rewrite val_S_i in H. lia. }
  specialize (S1 ltac:(lia) Hg Hacc0). specialize (T1 ltac:(lia)).
  destruct (loop1 fuel0 (mk N f7 g f75x (val f i0 0))) as [s2|s2|v|] eqn:E1.
  - destruct S1 as (A1 & A2 & A3 & A4 & A5 & A6). repeat (split; [assumption|]). split.
    + destruct A6 as [->|(a & b & Ea & Hlt)]; [exact HG|]. right. split; [|exact Hlt].
      exists a, b, c, d. exact Ea.
    + intros i j c' d' Hc Hv. destruct Hc as [Hc|[-> Hc]].
      * assert (g <= cand i j c' d') by (apply Hacc; auto). lia.
      * destruct (Nat.eq_dec c' c) as [->|Hne].
        -- apply A5. exact Hv.
        -- assert (g <= cand i j c' d) by (apply Hacc; auto; right; split; auto; lia). lia.
  - exact S1.
  - destruct S1 as [-> (a & b & Ea)]. split; [reflexivity|]. exists a, b, c, d. exact Ea.
  - apply T1; [|reflexivity]. destruct (val f i0 0 <? N); lia.
Qed.

(* ---------- loop over powers of 5 (generated loop3) ---------- *)
Lemma loop3_step fuel f7 g f75 x :
  loop3 fuel0 (S fuel) (mk N f7 g f75 x) =
    if f75 <? g then
      match loop2 fuel0 (mk N f7 g f75 f75) with
      | Normal s1 =>
        match loop1 fuel0 s1 with
        | Normal s2 => loop3 fuel0 fuel (mk (v_N s2) (v_f7 s2) (v_guess s2) (v_f75 s2 * 5) (v_x s2))
        | Brk s' => Normal s' | Ret v => Ret v | OutOfFuel => OutOfFuel
        end
      | Brk s' => Normal s' | Ret v => Ret v | OutOfFuel => OutOfFuel
      end
    else Normal (mk N f7 g f75 x).
Proof.
  cbn [loop3 GenUtils.seq v_N v_f7 v_guess v_f75 v_x]. destruct (f75 <? g); [|reflexivity].
  destruct (loop2 fuel0 (mk N f7 g f75 f75)) as [s1|s1|v|]; cbn [GenUtils.seq]; try reflexivity.
  destruct (loop1 fuel0 s1) as [s2|s2|v|]; cbn [GenUtils.seq]; reflexivity.
Qed.

Lemma loop3_spec : forall fuel f7 g x c d,
  g <= 2 * N -> Gok N g -> acc3 N g c d ->
  2 * N <= F75 c d * 2 ^ (Z.of_nat fuel - 1) ->
  match loop3 fuel0 fuel (mk N f7 g (F75 c d) x) with
  | Normal s' => v_N s' = N /\ v_f7 s' = f7 /\ v_guess s' <= g /\ Gok N (v_guess s') /\ acc3 N (v_guess s') 0 (S d)
  | Ret v => v = N /\ smooth N
  | _ => False
  end.
Proof.
  induction fuel as [|fuel IH]; intros f7 g x c d Hg HG Hacc Hfu.
  - exfalso. change (Z.of_nat 0 - 1) with (-1) in Hfu. rewrite Z.pow_neg_r in Hfu by lia. lia.
  - rewrite loop3_step. destruct (F75 c d <? g) eqn:E.
    + apply Z.ltb_lt in E.
      pose proof (pass_spec f7 g (F75 c d) c d Hg HG Hacc) as P.
      destruct (loop2 fuel0 (mk N f7 g (F75 c d) (F75 c d))) as [s1|s1|v|]; try contradiction.
      destruct (loop1 fuel0 s1) as [s2|s2|v|]; try contradiction; [|exact P].
      destruct P as (A1 & A2 & A3 & A4 & A5 & A6). rewrite A1, A2, A3.
      replace (F75 c d * 5) with (F75 (S c) d) by (rewrite F75_S_c; ring).
      specialize (IH f7 (v_guess s2) (v_x s2) (S c) d ltac:(lia) A5 A6).
      assert (Hfu' : 2 * N <= F75 (S c) d * 2 ^ (Z.of_nat fuel - 1)).
      { rewrite F75_S_c. pose proof (F75_pos c d). destruct fuel as [|fuel].
        - change (Z.of_nat 1 - 1) with 0 in Hfu. rewrite Z.pow_0_r in Hfu. lia.
        - replace (Z.of_nat (S (S fuel)) - 1) with (Z.succ (Z.of_nat (S fuel) - 1)) in Hfu by lia.
          rewrite Z.pow_succ_r in Hfu by lia.
          assert (0 <= 2 ^ (Z.of_nat (S fuel) - 1)) by (apply Z.pow_nonneg; lia). nia. }
      specialize (IH Hfu').
      destruct (loop3 fuel0 fuel (mk N f7 (v_guess s2) (F75 (S c) d) (v_x s2))) as [s'|s'|v|]; try contradiction; [|exact IH].
      destruct IH as (B1 & B2 & B3 & B4 & B5). repeat (split; [assumption|]). split; [lia|]. split; assumption.
    + apply Z.ltb_ge in E. cbn [v_N v_f7 v_guess]. split; [reflexivity|]. split; [reflexivity|]. split; [lia|]. split; [exact HG|].
      intros i j c' d' Hc Hv. destruct Hc as [Hc|[_ Hc]]; [|lia].
      destruct (Nat.eq_dec d' d) as [->|Hne].
      * destruct (Nat.lt_ge_cases c' c) as [Hlt|Hge].
        -- apply Hacc; auto.
        -- pose proof (cand_ge_F i j c' d). pose proof (F75_mono_c c c' d Hge). lia.
      * apply Hacc; auto. left. lia.
Qed.

(* ---------- loop over powers of 7 (generated loop4) ---------- *)
Lemma loop4_step fuel f7 g f75 x :
  loop4 fuel0 (S fuel) (mk N f7 g f75 x) =
    if f7 <? g then
      match loop3 fuel0 fuel0 (mk N f7 g f7 x) with
      | Normal s1 => loop4 fuel0 fuel (mk (v_N s1) (v_f7 s1 * 7) (v_guess s1) (v_f75 s1) (v_x s1))
      | Brk s' => Normal s' | Ret v => Ret v | OutOfFuel => OutOfFuel
      end
    else Normal (mk N f7 g f75 x).
Proof.
  cbn [loop4 GenUtils.seq v_N v_f7 v_guess v_f75 v_x]. destruct (f7 <? g); [|reflexivity].
  destruct (loop3 fuel0 fuel0 (mk N f7 g f7 x)) as [s1|s1|v|]; cbn [GenUtils.seq]; reflexivity.
Qed.

Lemma fuel0_big : 2 * N <= 2 ^ (Z.of_nat fuel0 - 1).
Proof.
  apply Z.le_trans with (2 ^ Z.of_nat (S L)).
  - rewrite Nat2Z.inj_succ, Z.pow_succ_r by lia. lia.
  - apply Z.pow_le_mono_r; lia.
Qed.

Lemma loop4_spec : forall fuel g f75 x d,
  g <= 2 * N -> Gok N g -> acc3 N g 0 d ->
  2 * N <= F75 0 d * 2 ^ (Z.of_nat fuel - 1) ->
  match loop4 fuel0 fuel (mk N (F75 0 d) g f75 x) with
  | Normal s' => v_guess s' <= g /\ Gok N (v_guess s') /\ (forall m, smooth m -> N <= m -> v_guess s' <= m)
  | Ret v => v = N /\ smooth N
  | _ => False
  end.
Proof.
  induction fuel as [|fuel IH]; intros g f75 x d Hg HG Hacc Hfu.
  - exfalso. change (Z.of_nat 0 - 1) with (-1) in Hfu. rewrite Z.pow_neg_r in Hfu by lia. lia.
  - rewrite loop4_step. destruct (F75 0 d <? g) eqn:E.
    + apply Z.ltb_lt in E.
      pose proof (loop3_spec fuel0 (F75 0 d) g x 0 d Hg HG Hacc) as P.
      assert (Hf0 : 2 * N <= F75 0 d * 2 ^ (Z.of_nat fuel0 - 1)).
      { pose proof fuel0_big. pose proof (F75_pos 0 d).
        assert (0 <= 2 ^ (Z.of_nat fuel0 - 1)) by (apply Z.pow_nonneg; lia). nia. }
      specialize (P Hf0).
      destruct (loop3 fuel0 fuel0 (mk N (F75 0 d) g (F75 0 d) x)) as [s1|s1|v|]; try contradiction; [|exact P].
      destruct P as (A1 & A2 & A3 & A4 & A5). rewrite A1, A2.
      replace (F75 0 d * 7) with (F75 0 (S d)) by (rewrite F75_S_d; ring).
      specialize (IH (v_guess s1) (v_f75 s1) (v_x s1) (S d) ltac:(lia) A4 A5).
      assert (Hfu' : 2 * N <= F75 0 (S d) * 2 ^ (Z.of_nat fuel - 1)).
      { rewrite F75_S_d. pose proof (F75_pos 0 d). destruct fuel as [|fuel].
        - change (Z.of_nat 1 - 1) with 0 in Hfu. rewrite Z.pow_0_r in Hfu. lia.
        - replace (Z.of_nat (S (S fuel)) - 1) with (Z.succ (Z.of_nat (S fuel) - 1)) in Hfu by lia.
          rewrite Z.pow_succ_r in Hfu by lia.
          assert (0 <= 2 ^ (Z.of_nat (S fuel) - 1)) by (apply Z.pow_nonneg; lia). nia. }
      specialize (IH Hfu').
      destruct (loop4 fuel0 fuel (mk N (F75 0 (S d)) (v_guess s1) (v_f75 s1) (v_x s1))) as [s'|s'|v|]; try contradiction; [|exact IH].
      destruct IH as (B1 & B2 & B3). split; [lia|]. split; assumption.
    + apply Z.ltb_ge in E. cbn [v_guess]. split; [lia|]. split; [exact HG|].
      intros m (i & j & c & d' & ->) Hm.
      destruct (Nat.lt_ge_cases d' d) as [Hlt|Hge].
      * apply Hacc; auto.
      * pose proof (cand_ge_F i j c d'). pose proof (F75_mono_d c d d' Hge). pose proof (F75_mono_c 0 c d ltac:(lia)). lia.
Qed.
End Outer.

(* ---------- main theorem ---------- *)
Definition next_spec (N r : Z) : Prop := smooth r /\ N <= r /\ forall m, smooth m -> N <= m -> r <= m.

Lemma smooth_pow2 k : smooth (2 ^ Z.of_nat k).
Proof. exists k, 0%nat, 0%nat, 0%nat. unfold cand, val, F75. simpl (Z.of_nat 0). rewrite !Z.pow_0_r. ring. Qed.

Lemma smooth_small n : 1 <= n <= 10 -> smooth n.
Proof.
  intros H. assert (n = 1 \/ n = 2 \/ n = 3 \/ n = 4 \/ n = 5 \/ n = 6 \/ n = 7 \/ n = 8 \/ n = 9 \/ n = 10) as C by lia.
  unfold smooth, cand, val, F75.
  destruct C as [->|[->|[->|[->|[->|[->|[->|[->|[->| ->]]]]]]]]].
  - exists 0%nat,0%nat,0%nat,0%nat; reflexivity.
  - exists 1%nat,0%nat,0%nat,0%nat; reflexivity.
  - exists 0%nat,1%nat,0%nat,0%nat; reflexivity.
  - exists 2%nat,0%nat,0%nat,0%nat; reflexivity.
  - exists 0%nat,0%nat,1%nat,0%nat; reflexivity.
  - exists 1%nat,1%nat,0%nat,0%nat; reflexivity.
  - exists 0%nat,0%nat,0%nat,1%nat; reflexivity.
  - exists 3%nat,0%nat,0%nat,0%nat; reflexivity.
  - exists 0%nat,2%nat,0%nat,0%nat; reflexivity.
  - exists 1%nat,0%nat,1%nat,0%nat; reflexivity.
Qed.

Lemma smooth_pos m : smooth m -> 0 < m.
Proof. intros (i & j & c & d & ->). apply val_pos, F75_pos. Qed.

Theorem next_fast_len_correct (N : Z) (fuel : nat) :
  1 <= N -> (2 * Z.to_nat (Z.log2_up N) + 4 <= fuel)%nat ->
  exists r, run fuel N = Ret r /\ next_spec N r.
Proof.
  intros HN Hfuel. unfold run, body. cbn [GenUtils.seq v_N v_f7 v_guess v_f75 v_x].
  destruct (N <=? 10) eqn:E10.
  - apply Z.leb_le in E10. exists N. split; [reflexivity|].
    split; [apply smooth_small; lia|]. split; [lia|]. intros; assumption.
  - apply Z.leb_gt in E10. cbn [GenUtils.seq v_N v_f7 v_guess v_f75 v_x].
    set (L := Z.to_nat (Z.log2_up N)).
    assert (HL : N <= 2 ^ Z.of_nat L).
    { unfold L. rewrite Z2Nat.id by apply Z.log2_up_nonneg. apply Z.log2_up_spec. lia. }
    pose proof (loop4_spec fuel L N ltac:(lia) HL Hfuel fuel (2 * N) 0 0 0%nat) as P.
    change (F75 0 0) with 1 in P.
    specialize (P ltac:(lia) (or_introl eq_refl)).
    assert (A0 : acc3 N (2 * N) 0 0) by (intros i j c' d' [Hc|[_ Hc]]; lia).
    specialize (P A0).
    assert (Hf : 2 * N <= 1 * 2 ^ (Z.of_nat fuel - 1)) by (rewrite Z.mul_1_l; apply (fuel0_big fuel L N); auto; lia).
    specialize (P Hf).
    destruct (loop4 fuel fuel (mk N 1 (2 * N) 0 0)) as [s'|s'|v|]; try contradiction.
    + cbn [GenUtils.seq]. destruct P as (B1 & B2 & B3).
      exists (v_guess s'). split; [reflexivity|].
      (* guess cannot still be 2N: a power of two lies in [N, 2N) *)
      assert (Hp : exists k, N <= 2 ^ Z.of_nat k < 2 * N).
      { exists (Z.to_nat (Z.log2_up N)). rewrite Z2Nat.id by apply Z.log2_up_nonneg.
        pose proof (Z.log2_up_spec N ltac:(lia)) as [H1 H2].
        split; [exact H2|]. replace (Z.log2_up N) with (Z.succ (Z.pred (Z.log2_up N))) by lia.
        rewrite Z.pow_succ_r; [lia|]. pose proof (Z.log2_up_pos N ltac:(lia)). lia. }
      destruct Hp as (k & Hk1 & Hk2).
      assert (v_guess s' <= 2 ^ Z.of_nat k) by (apply B3; [apply smooth_pow2|exact Hk1]).
      destruct B2 as [B2|[B2 B2']]; [lia|].
      split; [exact B2|]. split; [lia|exact B3].
    + cbn [GenUtils.seq]. destruct P as [-> P]. exists N. split; [reflexivity|].
      split; [exact P|]. split; [lia|]. intros; assumption.
Qed.

