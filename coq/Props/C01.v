(* Props/C01.v -- retained samples keep their absolute timestamps under every crop or slice.
   Statements only; proofs are in Proofs/LedgerProofs.v. *)
From Coq Require Import ZArith QArith List.
From PB Require Import Lib.PySlice Model.Ledger Proofs.LedgerProofs Gen.GenLedger Proofs.LedgerGen.
From PB Require Import Model.Band Model.Getitem Gen.GenGetitem Proofs.GetitemProofs.
Import ListNotations.
Open Scope Z_scope.

(* sound l l' off stride :=  0 <= len l'  /\ 0 < stride /\ 0 <= off /\ 0 < rate l' /\ rate l' == rate l / stride
     /\ (t0 l' = None <-> t0 l = None)
     /\ (forall k, 0 <= k < len l' -> 0 <= off + k*stride < len l)            (provenance in range)
     /\ (forall k, time_of l' k == time_of l (off + k*stride))                (timestamps preserved) *)

(* tie to the source by translation (T4): the start-time, sample-rate and positive-step arithmetic of the model's time_slice are the
   terms GENERATED from Signal._time_slice (core.py) on this run -- every crop and slice of the library goes through that method *)
Theorem C01_generated_core : forall (l : ledger) (a b c : option Z),
  time_slice l a b c =
  match slice_indices a b c (len l) with
  | None => Err (match c with Some 0 => 3 | _ => 2 end)
  | Some (lo, hi, st) =>
      Ok {| t0 := gen_ts_start l lo hi st; rate := gen_ts_rate l lo hi st; len := range_len lo hi st |} lo st
  end.
Proof. exact time_slice_generated. Qed.
Theorem C01_generated_derived : forall l, dt_of l = gen_dt l /\ time_length l = gen_time_length l /\ stop_time l = gen_stop_time l.
Proof. exact (fun l => conj (dt_generated l) (conj (time_length_generated l) (stop_time_generated l))). Qed.
Theorem C01_generated_contains : gen_contains_is_half_open = true.
Proof. exact contains_generated. Qed.
Theorem C01_generated_guard : forall (a b c : option Z) (n lo hi st : Z),
  slice_indices a b c n = Some (lo, hi, st) -> gen_ts_guard lo hi st = true.
Proof. exact slice_guard_generated. Qed.

Theorem C01_step : forall l o l' off stride,
  (0 < rate l)%Q -> 0 <= len l -> step l o = Ok l' off stride -> sound l l' off stride.
Proof. exact step_sound. Qed.

Theorem C01_pipeline : forall ops l l' off stride,
  (0 < rate l)%Q -> 0 <= len l -> run l ops = Ok l' off stride -> sound l l' off stride.
Proof. exact run_sound. Qed.

Theorem C01_slice : forall l a b c l' off stride,
  (0 < rate l)%Q -> 0 <= len l -> time_slice l a b c = Ok l' off stride ->
  sound l l' off stride /\
  (forall k, 0 <= k -> off + k * stride < clip (len l) b (len l) -> k < len l') /\
  off = clip (len l) a 0 /\ stride = match c with None => 1 | Some s => s end.
Proof. exact time_slice_sound. Qed.

Theorem C01_stop_time : forall l,
  opt_Qeq (stop_time l) (match t0 l with Some t => Some (t + inject_Z (len l) / rate l)%Q | None => None end).
Proof. exact stop_time_spec. Qed.

Theorem C01_contains : forall l t,
  contains l t = true <-> exists a, t0 l = Some a /\ (a <= t)%Q /\ (t < a + inject_Z (len l) / rate l)%Q.
Proof. exact contains_spec. Qed.

Theorem C01_contains_samples : forall l a, t0 l = Some a -> (0 < rate l)%Q ->
  (forall k, 0 <= k < len l -> contains l (a + inject_Z k / rate l) = true) /\
  contains l (a + inject_Z (len l) / rate l) = false.
Proof. exact contains_samples. Qed.

(* the model satisfies the executable statement of the property that the monitor evaluates on the
   implementation's observations *)
Theorem C01_model_meets_spec : forall l o l' off stride ttol rtol probes,
  (0 < rate l)%Q -> 0 <= len l -> (0 <= ttol)%Q -> (0 <= rtol)%Q ->
  step l o = Ok l' off stride ->
  C01_ok ttol rtol l (obs_of_model l' off stride probes) = 0.
Proof. exact model_meets_spec. Qed.

Theorem C01_shift_crop_no_wrap : forall l start stop l' off stride,
  (0 < rate l)%Q -> 0 <= len l -> 0 <= start -> stop <= 0 ->
  step l (OShiftCrop start stop) = Ok l' off stride ->
  off = Z.min start (len l) /\ stride = 1 /\ len l' = Z.max 0 (len l + stop - Z.min start (len l)) /\
  (forall k, 0 <= k < len l' -> start <= off + k < len l + stop).
Proof. exact shift_crop_no_wrap. Qed.

(* z[index] in full: the index dispatch of Signal.__getitem__ / RadioSignal.__getitem__ is REGENERATED from core.py on every run
   (which items must be slices, which item goes to _time_slice, what is refused); a successful z[index] - whatever else the index
   holds - is time_slice on item 0, so C01_step / C01_slice above apply to it; anything but a slice on the time axis is IndexError. *)
Theorem C01_generated_getitem : forall l bd index,
  signal_getitem l index = gen_signal_getitem l index /\ radio_getitem l bd index = gen_radio_getitem l bd index.
Proof. exact (fun l bd index => conj (signal_getitem_generated l index) (radio_getitem_generated l bd index)). Qed.
Theorem C01_getitem : forall l bd index l' off st r,
  signal_getitem l index = GOk l' off st r \/ radio_getitem l bd index = GOk l' off st r ->
  exists a b c rest, index = ISlice a b c :: rest /\ time_slice l a b c = Ok l' off st.
Proof. exact getitem_is_time_slice. Qed.
Theorem C01_getitem_refuses : forall l bd rest,
  signal_getitem l (IOther :: rest) = GIndex /\ radio_getitem l bd (IOther :: rest) = GIndex /\
  signal_getitem l [] = GIndex /\ radio_getitem l bd [] = GIndex.
Proof. exact getitem_refuses_all. Qed.

Print Assumptions C01_step.
Print Assumptions C01_pipeline.
Print Assumptions C01_slice.
Print Assumptions C01_stop_time.
Print Assumptions C01_contains.
Print Assumptions C01_contains_samples.
Print Assumptions C01_model_meets_spec.
Print Assumptions C01_shift_crop_no_wrap.
Print Assumptions C01_generated_core.
Print Assumptions C01_generated_getitem.
Print Assumptions C01_getitem.
