(* Model/Contract.v -- the class contracts of pulsarbat signals (C16): Signal.__init__ and the property setters of every class,
   check by check, over abstract descriptions of the constructor arguments; the per-class tables (_req_shape, _req_dtype,
   constructor signatures) are the GENERATED class_table of Gen/GenConsts.v.  No proofs in this file. *)
From Coq Require Import ZArith String List Bool.
From PB Require Import Gen.GenConsts.
Import ListNotations.
Open Scope string_scope.

(* ---- argument kinds (what the checks can distinguish) ---- *)
Inductive qkind := QPos | QZero | QNeg | QNan | QArray | QWrongUnit | QNotQuantity.        (* a would-be frequency Quantity *)
Inductive tkind := TNone | TScalar | TArray | TNotTime.                                     (* start_time *)
Inductive mkind := MNone | MDict | MNotDict.                                                (* meta *)
Record qarg := { q_kind : qkind; q_id : nat }.            (* q_id: which value (for "reproduced unchanged") *)

(* numpy dtypes by name; can_cast(from, to, casting="safe") for the two targets that occur (modelled, validated by the run) *)
Definition is_int_or_bool (d : string) : bool :=
  existsb (String.eqb d) ["bool"; "int8"; "int16"; "int32"; "int64"; "uint8"; "uint16"; "uint32"; "uint64"].
(* str(dtype) of non-native byte order: ">f8", ">f4", ">c16", ">c8", ">i4", ... (never equal to a class's native dtype) *)
Definition can_cast_safe (from to : string) : bool :=
  if String.eqb from to then true
  else if String.eqb to "float64" then is_int_or_bool from || existsb (String.eqb from) ["float16"; "float32"; ">f8"; ">f4"; ">f2"; ">i2"; ">i4"; ">i8"; ">u2"; ">u4"; ">u8"]
  else if String.eqb to "complex128" then is_int_or_bool from ||
       existsb (String.eqb from) ["float16"; "float32"; "float64"; "complex64"; ">f8"; ">f4"; ">f2"; ">c16"; ">c8"; ">i2"; ">i4"; ">i8"; ">u2"; ">u4"; ">u8"]
  else false.

Record args := {
  a_shape : list Z; a_dtype : string;
  a_rate : qarg; a_start : tkind; a_meta : mkind;
  a_center : qarg; a_bw : qarg; a_align : string; a_pol : string
}.
Record signal := {
  g_cls : string; g_shape : list Z; g_dtype : string;
  g_rate : qarg; g_start : tkind; g_meta : mkind;
  g_center : option qarg; g_bw : option qarg; g_align : option string; g_pol : option string
}.
Inductive cres := Ok (s : signal) | Err.          (* Err: ValueError (InvalidSignalError is a ValueError) *)

(* ---- class table lookups ---- *)
Definition cls_entry := (string * string * list Z * list string * list (string * bool))%type.
Definition lookup (c : string) : option cls_entry :=
  find (fun e : cls_entry => String.eqb (fst (fst (fst (fst e)))) c) class_table.
Definition req_shape (e : cls_entry) : list Z := snd (fst (fst e)).
Definition req_dtype (e : cls_entry) : list string := snd (fst e).
Definition params (e : cls_entry) : list (string * bool) := snd e.
Definition has_param (e : cls_entry) (p : string) : bool := existsb (fun q => String.eqb (fst q) p) (params e).
Fixpoint is_radio_fuel (fuel : nat) (c : string) : bool :=
  match fuel with
  | O => false
  | S k => String.eqb c "RadioSignal" ||
           match lookup c with Some e => is_radio_fuel k (snd (fst (fst (fst e)))) | None => false end
  end.
Definition is_radio := is_radio_fuel 6.

(* ---- the checks ---- *)
Fixpoint shape_ok (shape req : list Z) : bool :=          (* all(x == (y or x) for x, y in zip(shape[:min_ndim], req)) *)
  match shape, req with
  | _, [] => true
  | x :: s', y :: r' => ((y =? 0)%Z || (x =? y)%Z) && shape_ok s' r'
  | [], _ :: _ => false
  end.
Definition prodZ (l : list Z) : Z := fold_left Z.mul l 1%Z.
Definition dtype_result (d : string) (req : list string) : option string :=
  match req with
  | [] => Some d
  | r0 :: _ => if existsb (String.eqb d) req then Some d else if can_cast_safe d r0 then Some r0 else None
  end.
Definition dtype_allowed (d : string) (req : list string) : bool :=
  match req with [] => true | _ :: _ => existsb (String.eqb d) req end.
Definition q_positive (q : qarg) : bool := match q_kind q with QPos => true | _ => false end.            (* sample_rate, chan_bw *)
Definition q_scalar_freq (q : qarg) : bool := match q_kind q with QPos | QZero | QNeg | QNan => true | _ => false end.   (* center_freq *)
Definition t_ok (t : tkind) : bool := match t with TNone | TScalar => true | _ => false end.
Definition m_ok (m : mkind) : bool := match m with MNone | MDict => true | MNotDict => false end.
Definition align_ok (a : string) : bool := existsb (String.eqb a) ["bottom"; "center"; "top"].
Definition pol_ok (p : string) : bool := existsb (String.eqb p) ["linear"; "circular"].
Definition nchan (shape : list Z) : Z := nth 1 shape 0%Z.

(* cls(z, **kwargs) *)
Definition construct (c : string) (a : args) : cres :=
  match lookup c with
  | None => Err
  | Some e =>
    if (length (a_shape a) <? length (req_shape e))%nat then Err
    else if negb (shape_ok (a_shape a) (req_shape e)) then Err
    else if (prodZ (tl (a_shape a)) =? 0)%Z then Err
    else match dtype_result (a_dtype a) (req_dtype e) with
    | None => Err
    | Some dt =>
      if negb (q_positive (a_rate a)) then Err
      else if negb (t_ok (a_start a)) then Err
      else if negb (m_ok (a_meta a)) then Err
      else if negb (is_radio c) then
        Ok {| g_cls := c; g_shape := a_shape a; g_dtype := dt; g_rate := a_rate a; g_start := a_start a; g_meta := a_meta a;
              g_center := None; g_bw := None; g_align := None; g_pol := None |}
      else
        (* RadioSignal.__init__: center_freq, chan_bw, freq_align; baseband classes pass chan_bw = sample_rate *)
        let bw := if has_param e "chan_bw" then a_bw a else a_rate a in
        if negb (q_scalar_freq (a_center a)) then Err
        else if negb (q_positive bw) then Err
        else if negb (align_ok (a_align a)) then Err
        else
          let al := if Z.odd (nchan (a_shape a)) then "center" else a_align a in
          if has_param e "pol_type" then
            if negb (pol_ok (a_pol a)) then Err
            else Ok {| g_cls := c; g_shape := a_shape a; g_dtype := dt; g_rate := a_rate a; g_start := a_start a; g_meta := a_meta a;
                       g_center := Some (a_center a); g_bw := Some bw; g_align := Some al; g_pol := Some (a_pol a) |}
          else Ok {| g_cls := c; g_shape := a_shape a; g_dtype := dt; g_rate := a_rate a; g_start := a_start a; g_meta := a_meta a;
                     g_center := Some (a_center a); g_bw := Some bw; g_align := Some al; g_pol := None |}
    end
  end.

(* like(obj): every constructor parameter not given is read from the attribute of the same name *)
Definition qdefault : qarg := {| q_kind := QNotQuantity; q_id := 0 |}.
Definition args_of (s : signal) : args :=
  {| a_shape := g_shape s; a_dtype := g_dtype s; a_rate := g_rate s; a_start := g_start s; a_meta := g_meta s;
     a_center := match g_center s with Some q => q | None => qdefault end;
     a_bw := match g_bw s with Some q => q | None => qdefault end;
     a_align := match g_align s with Some x => x | None => "" end;
     a_pol := match g_pol s with Some x => x | None => "" end |}.
Definition like (s : signal) : cres := construct (g_cls s) (args_of s).

(* the contract, as an executable predicate over what the harness observes on ANY signal *)
Definition WF (s : signal) : bool :=
  match lookup (g_cls s) with
  | None => false
  | Some e =>
    (length (req_shape e) <=? length (g_shape s))%nat && shape_ok (g_shape s) (req_shape e) && negb (prodZ (tl (g_shape s)) =? 0)%Z &&
    dtype_allowed (g_dtype s) (req_dtype e) &&
    q_positive (g_rate s) && t_ok (g_start s) && m_ok (g_meta s) &&
    (if is_radio (g_cls s) then
       match g_center s, g_bw s, g_align s with
       | Some cq, Some bq, Some al =>
         q_scalar_freq cq && q_positive bq && align_ok al && (if Z.odd (nchan (g_shape s)) then String.eqb al "center" else true) &&
         (if has_param e "chan_bw" then true else Nat.eqb (q_id bq) (q_id (g_rate s))) &&      (* baseband: chan_bw IS sample_rate *)
         (if has_param e "pol_type" then match g_pol s with Some p => pol_ok p | None => false end
          else match g_pol s with None => true | Some _ => false end)
       | _, _, _ => false
       end
     else match g_center s, g_bw s, g_align s, g_pol s with None, None, None, None => true | _, _, _, _ => false end)
  end.
