(* Model/Pol.v -- polarisation conversions and Stokes parameters of DualPolarizationSignal (core.py:882-966)
   and BasebandSignal.to_intensity, written ONCE over an abstract carrier: the proofs instantiate it with R,
   the correspondence run with primitive binary64 floats.  No proofs here. *)
From Coq Require Import List String ZArith.
From PB Require Import Gen.GenConsts.
Import ListNotations.

Section Pol.
  Variable T : Type.
  Variables (add sub mul div : T -> T -> T) (opp : T -> T) (zero two s : T).   (* s = sqrt 2 *)

  Definition Cx : Type := (T * T)%type.
  Definition cadd (a b : Cx) : Cx := (add (fst a) (fst b), add (snd a) (snd b)).
  Definition csub (a b : Cx) : Cx := (sub (fst a) (fst b), sub (snd a) (snd b)).
  Definition cmul (a b : Cx) : Cx :=
    (sub (mul (fst a) (fst b)) (mul (snd a) (snd b)), add (mul (fst a) (snd b)) (mul (snd a) (fst b))).
  Definition cconj (a : Cx) : Cx := (fst a, opp (snd a)).
  Definition cdivr (a : Cx) (r : T) : Cx := (div (fst a) r, div (snd a) r).
  (* 1j * a, as numpy evaluates it for finite values *)
  Definition imul (a : Cx) : Cx := (opp (snd a), fst a).
  Definition nrm2 (a : Cx) : T := add (mul (fst a) (fst a)) (mul (snd a) (snd a)).   (* z.real**2 + z.imag**2 *)

  (* to_circular: L = X - 1j*Y, R = X + 1j*Y, stacked [L, R] / sqrt 2 *)
  Definition to_circ (x y : Cx) : Cx * Cx := (cdivr (csub x (imul y)) s, cdivr (cadd x (imul y)) s).
  (* to_linear: X = L + R, Y = 1j*(L - R), stacked [X, Y] / sqrt 2 *)
  Definition to_lin (l r : Cx) : Cx * Cx := (cdivr (cadd l r) s, cdivr (imul (csub l r)) s).

  (* to_stokes: stack [I, Q, U, V] *)
  Definition stokes_lin (x y : Cx) : list T :=
    let xy := cmul (cconj x) y in
    [add (nrm2 x) (nrm2 y); sub (nrm2 x) (nrm2 y); mul two (fst xy); mul two (snd xy)].
  Definition stokes_circ (l r : Cx) : list T :=
    let lr := cmul (cconj l) r in
    [add (nrm2 l) (nrm2 r); mul two (fst lr); mul two (snd lr); sub (nrm2 l) (nrm2 r)].

  (* pol_type: false = linear, true = circular *)
  Definition to_stokes (circular : bool) (a b : Cx) : list T := if circular then stokes_circ a b else stokes_lin a b.
  Definition to_linear (circular : bool) (a b : Cx) : Cx * Cx := if circular then to_lin a b else (a, b).
  Definition to_circular (circular : bool) (a b : Cx) : Cx * Cx := if circular then (a, b) else to_circ a b.
  Definition to_intensity (a : Cx) : T := nrm2 a.
End Pol.

(* component access by name through the GENERATED _stokes_ids *)
Fixpoint lookupZ (k : string) (t : list (string * Z)) : option Z :=
  match t with [] => None | (k', v) :: r => if String.eqb k k' then Some v else lookupZ k r end.
Definition stokes_index (name : string) : option Z := lookupZ name stokes_ids.
