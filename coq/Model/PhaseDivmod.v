(* Model/PhaseDivmod.v -- C07: the floor_divide / remainder / divmod branch of Phase.__array_ufunc__ (real phase, real divisor given
   in cycles), statement by statement, on the bit-exact binary64 model: numpy's float floor_divide (npy_divmod: fmod, quotient,
   Python-sign adjustment, snap to the nearest integer), the correction Phase built by from_angles(divisor, factor=fd), the
   Phase subtraction, and the second pass.  fmod is exact in IEEE arithmetic and is computed here on the decoded operands.  No proofs. *)
From Coq Require Import ZArith Bool PrimFloat Uint63 SpecFloat FloatOps List.
From PB Require Import Model.Phase2.
Open Scope bool_scope. Open Scope float_scope.

Definition fzero_signed (neg : bool) : float := if neg then (-0) else 0.
Definition is_neg (x : float) : bool := match Prim2SF x with S754_zero s => s | S754_finite s _ _ => s | S754_infinity s => s | S754_nan => false end.

(* C fmod(a, b): a - trunc(a/b)*b, exact; sign of a *)
Definition fmod_f (a b : float) : float :=
  match Prim2SF a, Prim2SF b with
  | S754_finite sa ma ea, S754_finite _ mb eb =>
    let e := Z.min ea eb in
    let A := (Zpos ma * 2 ^ (ea - e))%Z in
    let B := (Zpos mb * 2 ^ (eb - e))%Z in
    let R := (A mod B)%Z in
    if (R =? 0)%Z then fzero_signed sa else SF2Prim (S754_finite sa (Z.to_pos R) e)
  | S754_zero _, S754_finite _ _ _ => a
  | S754_finite _ _ _, S754_infinity _ => a
  | S754_zero _, S754_infinity _ => a
  | _, _ => nan
  end.

Definition copysign0 (like : float) : float := fzero_signed (is_neg like).

(* numpy npy_divmod for doubles -> (floordiv, mod); b = 0 gives (a / b, fmod) *)
Definition np_divmod (a b : float) : float * float :=
  let md := fmod_f a b in
  if (b =? 0) then (a / b, md) else
  let dv := (a - md) / b in
  let '(md, dv) := if negb (md =? 0) then (if xorb (b <? 0) (md <? 0) then (md + b, dv - 1) else (md, dv))
                   else (copysign0 b, dv) in
  let fd := if negb (dv =? 0) then (let f := ffloor dv in if (0.5 <? dv - f) then f + 1 else f)
            else copysign0 (a / b) in
  (fd, md).
Definition np_floor_divide (a b : float) : float := fst (np_divmod a b).

Definition cyc (p : ph) : float := p_int p + p_frac p.

(* remainder for a given quotient: self - from_angles(divisor, factor=fd) ; None = some step did not give a Phase *)
Definition rem_of (p : ph) (d fd : float) : option ph :=
  match from_angles (NReal d) None (Some (NReal fd)) None with
  | None => None
  | Some corr => match op_addsub true (OPh p) (OPh corr) with RPh rem => Some rem | _ => None end
  end.

(* (fd, remainder): first guess from the single-double cycle, remainder, second guess from the remainder's cycle, remainder again *)
Definition op_divmod (p : ph) (d : float) : option (float * ph) :=
  let fd := np_floor_divide (cyc p) d in
  match rem_of p d fd with
  | None => None
  | Some rem =>
    let fdx := np_floor_divide (cyc rem) d in
    if negb (fdx =? 0) then
      let fd2 := fd + fdx in
      match rem_of p d fd2 with None => None | Some rem2 => Some (fd2, rem2) end
    else Some (fd, rem)
  end.

(* comparison with the implementation: 0 agree; 1 quotient differs; 2 remainder differs; 4 one side failed *)
Definition chk_divmod (p : ph) (d : float) (q : option float) (r : option ph) : Z :=
  match op_divmod p d with
  | None => match q, r with None, None => 0 | _, _ => 4 end
  | Some (fd, rem) =>
    ((match q with Some q' => if feqb fd q' then 0 else 1 | None => 0 end) +
     (match r with Some r' => if ph_eqb rem r' then 0 else 2 | None => 0 end))%Z
  end.
