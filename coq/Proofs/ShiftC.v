(* Proofs/ShiftC.v -- the value theorems of Proofs/ShiftProofs.v for the complex numbers (Coquelicot C), for every n >= 1:
   the section hypotheses of ShiftProofs.Values are satisfiable (non-vacuity) and the statements hold for exp(2 pi i z/n). *)
From Coq Require Import ZArith QArith Reals Lia.
From Coquelicot Require Import Complex.
From PB Require Import Lib.Dft Lib.DftC Model.Shift Proofs.ShiftProofs.

Section Inst.
  Variable n : nat.
  Hypothesis npos : (0 < n)%nat.
  Let Wn := W n.
  Let ninv := RtoC (/ INR n).

  Definition tshift_intC := tshift_int C (RtoC 0) Cplus Cmult n Wn ninv.
  Definition fshift_spec_intC := fshift_spec_int C (RtoC 0) Cplus Cmult n Wn.
  Definition tshiftC := tshift C (RtoC 0) Cplus Cmult n Wn ninv.
  Definition dftC := dft C (RtoC 0) Cplus Cmult n Wn.

  Definition tshift_int_exact_C :=
    tshift_int_exact C (RtoC 0) (RtoC 1) Cplus Cmult Cminus Copp C_ring_theory C_int n npos Wn
      (W_add n npos) (W_0 n npos) (W_n n npos) (W_prim n npos) ninv (ninv_C n npos).
  Definition tshift_int_full_C :=
    tshift_int_full C (RtoC 0) (RtoC 1) Cplus Cmult Cminus Copp C_ring_theory C_int n npos Wn
      (W_add n npos) (W_0 n npos) (W_n n npos) (W_prim n npos) ninv (ninv_C n npos).
  Definition tshift_tone_C :=
    tshift_tone C (RtoC 0) (RtoC 1) Cplus Cmult Cminus Copp C_ring_theory C_int n npos Wn
      (W_add n npos) (W_0 n npos) (W_n n npos) (W_prim n npos) ninv (ninv_C n npos).
  Definition fshift_int_exact_C :=
    fshift_int_exact C (RtoC 0) (RtoC 1) Cplus Cmult Cminus Copp C_ring_theory n npos Wn
      (W_add n npos) (W_0 n npos) (W_n n npos).
  Definition fshift_int_full_C :=
    fshift_int_full C (RtoC 0) (RtoC 1) Cplus Cmult Cminus Copp C_ring_theory n npos Wn
      (W_add n npos) (W_0 n npos) (W_n n npos).
End Inst.
