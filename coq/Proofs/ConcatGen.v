(* Proofs/ConcatGen.v -- C10: the loop bodies and arithmetic of Model/Concat.concat ARE those translated from transforms.concatenate
   (Gen/GenConcat.v, regenerated on every run by T12; its other statements are pinned): the time-axis anchor / comparison / counter, the
   off-axis start-time comparison, the frequency-contiguity difference, the off-axis label tolerance, the labels that feed the new centre
   frequency on either path, and the alignment name.  [concat_gen] is concat rebuilt from the generated pieces; the model equals it. *)
From Coq Require Import ZArith QArith Qabs List Bool String.
From PB Require Import Lib.PySlice Model.Ledger Model.Band Model.Concat Gen.GenConcat.
Import ListNotations.
Open Scope Z_scope.

Fixpoint scan_gen (eps r : Q) (ref : option Q) (n : Z) (ps : list ledger) : option (option Q) :=
  match ps with
  | [] => Some ref
  | p :: ps' => match gen_scan_step eps r ref n p with None => None | Some (ref', n') => scan_gen eps r ref' n' ps' end
  end.
Fixpoint scan_same_gen (eps : Q) (ref : option Q) (ps : list ledger) : option (option Q) :=
  match ps with
  | [] => Some ref
  | p :: ps' => match gen_same_step eps ref p with None => None | Some ref' => scan_same_gen eps ref' ps' end
  end.
Fixpoint contiguous_gen (rt cbw : Q) (bs : list band) : bool :=
  match bs with
  | x :: ((y :: _) as r) => gen_contig_pair rt cbw x y && contiguous_gen rt cbw r
  | _ => true
  end.

Lemma scan_generated eps r ps : forall ref n, scan eps r ref n ps = scan_gen eps r ref n ps.
Proof.
  induction ps as [|p ps IH]; intros ref n; [reflexivity|]. cbn [scan scan_gen]. unfold gen_scan_step.
  destruct (t0 p) as [t|]; [destruct ref as [rf|]|]; try apply IH.
  destruct (close_abs eps (rf + inject_Z n / r) t); [apply IH|reflexivity].
Qed.
Lemma scan_same_generated eps ps : forall ref, scan_same eps ref ps = scan_same_gen eps ref ps.
Proof.
  induction ps as [|p ps IH]; intros ref; [reflexivity|]. cbn [scan_same scan_same_gen]. unfold gen_same_step.
  destruct (t0 p) as [t|]; [destruct ref as [rf|]|]; try apply IH.
  destruct (close_abs eps rf t); [apply IH|reflexivity].
Qed.
Lemma contiguous_generated rt cbw bs : contiguous rt cbw bs = contiguous_gen rt cbw bs.
Proof.
  induction bs as [|x bs IH]; [reflexivity|]. destruct bs as [|y r]; [reflexivity|].
  change (contiguous rt cbw (x :: y :: r)) with (close_rel rt (label y 0 - label x (nchan x - 1))%Q cbw && contiguous rt cbw (y :: r)).
  change (contiguous_gen rt cbw (x :: y :: r)) with (gen_contig_pair rt cbw x y && contiguous_gen rt cbw (y :: r)).
  rewrite IH. reflexivity.
Qed.

(* concat, rebuilt from the generated pieces (relative tolerance of u.isclose / the 1e-5 of the label test: 1e-5) *)
Definition concat_gen (eps : Q) (axis : Z) (ps : list sig) : cres :=
  let rt := (1 # 100000)%Q in
  match ps with
  | [] => CErr 1
  | p0 :: _ =>
    if negb (forallb (fun p => s_cls p =? s_cls p0) ps) then CErr 4 else
    let r0 := rate (s_led p0) in
    if negb (forallb (fun p => close_rel rt r0 (rate (s_led p))) ps) then CErr 1 else
    let leds := map s_led ps in
    match (if axis =? 0 then scan_gen eps r0 None 0 leds else scan_same_gen eps None leds) with
    | None => CErr 1
    | Some ref =>
      let newlen := if axis =? 0 then total_len leds else len (s_led p0) in
      let COk := fun s => if negb (axis =? 0) && negb (forallb (fun p => len (s_led p) =? len (s_led p0)) ps)
                          then CErr 1 else COk s in
      let led' := {| t0 := ref; rate := r0; len := newlen |} in
      match s_band p0 with
      | None => if axis =? 1 then CErr 4 else COk {| s_cls := s_cls p0; s_led := led'; s_band := None |}
      | Some b0 =>
        match bands_of ps with
        | None => CErr 4
        | Some bs =>
          if negb (forallb (fun b => close_rel rt (bw b0) (bw b)) bs) then CErr 1 else
          if axis =? 1 then
            if contiguous_gen rt (bw b0) bs then
              COk {| s_cls := s_cls p0; s_led := led';
                     s_band := Some (mk_band (gen_center_freq_axis b0 (last_band b0 bs)) (bw b0) (total_chan bs) 1) |}
            else CErr 1
          else
            if forallb (fun b => all_close_abs (gen_label_atol (bw b0)) (labels b0) (labels b)) bs then
              COk {| s_cls := s_cls p0; s_led := led';
                     s_band := Some (mk_band (gen_center_freq_other b0) (bw b0) (nchan b0) 1) |}
            else CErr 1
        end
      end
    end
  end.

Theorem concat_generated eps axis ps : concat eps (1 # 100000) axis ps = concat_gen eps axis ps.
Proof.
  unfold concat, concat_gen. cbv zeta. destruct ps as [|p0 ps']; [reflexivity|].
  rewrite scan_generated, scan_same_generated.
  destruct (negb (forallb (fun p => s_cls p =? s_cls p0) (p0 :: ps'))); [reflexivity|].
  destruct (negb (forallb (fun p => close_rel (1 # 100000) (rate (s_led p0)) (rate (s_led p))) (p0 :: ps'))); [reflexivity|].
  destruct (if axis =? 0 then _ else _) as [ref|]; [|reflexivity].
  destruct (s_band p0) as [b0|]; [|reflexivity].
  destruct (bands_of (p0 :: ps')) as [bs|]; [|reflexivity].
  rewrite contiguous_generated. reflexivity.
Qed.
Theorem concat_align_generated : align_name 1 = gen_concat_align.
Proof. reflexivity. Qed.
