(* Proofs/PolycoGen.v -- C08: the arithmetic of Model/Polyco IS that translated from pulsar/predictor.py (Gen/GenPolyco.v, regenerated on
   every run by T14; the other statements of the methods are pinned): span edges, one pass of the interval-merge loop, the membership
   test and dt of _get_index_and_dt, how __call__ / f0 / phasepol use the selected entry, and the coefficient updates of from_polyco. *)
From Coq Require Import ZArith QArith Qround Qabs Qminmax List Bool Lia.
From PB Require Import Model.Polyco Gen.GenPolyco.
Import ListNotations.
Open Scope Q_scope.

Theorem span_edges_generated e : e_start e = gen_e_start e /\ e_end e = gen_e_end e /\ e_end e = gen_span_end e.
Proof. repeat split; reflexivity. Qed.

(* the merge loop of the model is the fold of the generated pass *)
Fixpoint merge_gen (eps : Q) (l : list (Q * Q)) (start stop : Q) (acc : list (Q * Q)) : list (Q * Q) :=
  match l with
  | [] => (start, stop) :: acc
  | (ns, ne) :: r => let '(s', e', acc') := gen_merge_step eps start stop acc ns ne in merge_gen eps r s' e' acc'
  end.
Theorem merge_generated eps l : forall start stop acc, merge eps l start stop acc = merge_gen eps l start stop acc.
Proof.
  induction l as [|[ns ne] r IH]; intros start stop acc; [reflexivity|]. cbn [merge merge_gen]. unfold gen_merge_step.
  destruct (Qle_bool start ne || Qle_bool (Qabs (start - ne)) eps); apply IH.
Qed.

Theorem in_intervals_generated iv t : in_intervals iv t = existsb (fun ab => gen_in_interval ab t) iv.
Proof. reflexivity. Qed.
Theorem index_dt_generated eps es t :
  index_dt eps es t =
  if existsb (fun ab => gen_in_interval ab t) (intervals eps es) then
    match nth_error es (searchsorted (map gen_span_end es) t) with Some e => Some (e, gen_dt e t) | None => None end
  else None.
Proof. reflexivity. Qed.
Theorem predict_generated eps es t :
  predict eps es t = match index_dt eps es t with Some (e, dt) => Some (gen_predict e dt) | None => None end.
Proof. reflexivity. Qed.
Theorem f0_generated eps es t n :
  f0 eps es t n = match index_dt eps es t with Some (e, dt) => Some (gen_f0 e dt n) | None => None end.
Proof. reflexivity. Qed.
Theorem phasepol_generated eps es t0 :
  phasepol eps es t0 = match index_dt eps es t0 with Some (e, dt) => Some (gen_phasepol e dt) | None => None end.
Proof. reflexivity. Qed.

Theorem mk_entry_generated r :
  mk_entry r = match gen_pad (r_coeffs r) with
               | c0 :: c1 :: rest => Some {| e_tmid := r_tmid r; e_span := r_span r; e_rphase := r_rint r;
                                            e_poly := conv 1 (gen_c0 r c0 :: gen_c1 r c1 :: rest) |}
               | _ => None end.
Proof. reflexivity. Qed.
(* conv 1 divides coefficient i by gen_domain_scale ^ i: the first two steps, and the step function *)
Theorem conv_step_generated k c cs : conv k (c :: cs) = (c / k) :: conv (k * gen_domain_scale) cs.
Proof. reflexivity. Qed.
(* the number of coefficient lines is ceil(ncoeff / 3) *)
Theorem coeff_lines_generated n : (0 <= n)%Z -> (3 * (gen_coeff_lines n - 1) < n <= 3 * gen_coeff_lines n)%Z.
Proof.
  intros Hn. unfold gen_coeff_lines. pose proof (Z.div_mod n (-3) ltac:(lia)) as D. pose proof (Z.mod_neg_bound n (-3) ltac:(lia)) as M. lia.
Qed.
