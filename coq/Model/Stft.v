(* Model/Stft.v -- pb.fft name dispatch and contrib.stft / contrib.istft (C20): the band relabelling (through the C02 band model
   and the re-centring slice z[..., :]), the time ledger and the per-segment transform with its fftshift index maps.
   The list of exposed transforms is the GENERATED _FFT_FUNCS of Gen/GenConsts.v.  No proofs in this file. *)
From Coq Require Import ZArith QArith String List Bool.
From PB Require Import Lib.PySlice Gen.GenConsts Model.Band Model.Shift Lib.Dft.
Import ListNotations.
Open Scope Z_scope.

(* ---- pb.fft.__getattr__ ---- *)
(* Some target: the wrapper around scipy.fft.<target> (with its dask.array.fft.fft_wrap branch); None: AttributeError *)
Definition dispatch (name : string) : option string :=
  if existsb (String.eqb name) fft_funcs then (if fft_target_is_same_name then Some name else None) else None.
Definition the_fourteen : list string :=
  ["fft"; "fft2"; "fftn"; "ifft"; "ifft2"; "ifftn"; "rfft"; "rfft2"; "rfftn"; "irfft"; "irfft2"; "irfftn"; "hfft"; "ihfft"]%string.

(* ---- stft(z, nperseg = P) on the band of a baseband signal (chan_bw = sample_rate) ---- *)
(* z = z[: len - len % P, :]  re-centres the band; then like(z, x, sample_rate = sr / P, freq_align = center if P odd else bottom)
   with nchan * P channels (BasebandSignal: chan_bw := sample_rate) *)
Definition stft_band (b : band) (P : Z) : option band :=
  match freq_slice b None None None with
  | BOk b1 _ => Some (mk_band (cf b1) (bw b / inject_Z P)%Q (nchan b * P) (if Z.odd P then 1 else 0))
  | BErr _ => None
  end.
(* istft(z, nperseg = P): like(z, x, sample_rate = sr * P, freq_align = 'center') with nchan / P channels; center_freq kept *)
Definition istft_band (b : band) (P : Z) : band := mk_band (cf b) (bw b * inject_Z P)%Q (nchan b / P) 1.

(* time ledger *)
Definition stft_len (len P : Z) : Z := (len - len mod P) / P.
Definition istft_len (len P : Z) : Z := len * P.

(* output channel i*P + j of the STFT holds sub-band j (fftshift order) of input channel i *)
Definition stft_chan (P i j : Z) : Z := i * P + j.
(* sub-band j in fftshift order is DFT bin (j - P/2) mod P of the segment, i.e. signed bin j - P/2 *)
Definition stft_bin (P j : Z) : Z := unshift_idx P j.
(* istft undoes the shift: np.fft.ifftshift puts bin k at shifted position (k + P/2) mod P *)
Definition ishift_idx (P k : Z) : Z := (k + P / 2) mod P.

Section Seg.
  Variable T : Type.
  Variables (t0 t1 : T) (tadd tmul : T -> T -> T).
  Variable n : nat.                         (* nperseg *)
  Variable W : Z -> T.
  Variable ninv : T.
  (* one segment of one channel: x -> fftshift(fft(x)) / nperseg *)
  Definition stft_seg (x : nat -> T) (j : nat) : T :=
    tmul ninv (dft T t0 tadd tmul n W x (Z.to_nat (stft_bin (Z.of_nat n) (Z.of_nat j)))).
  (* and back: ifft(ifftshift(X * nperseg)) *)
  Definition istft_seg (X : nat -> T) (m : nat) : T :=
    idft T t0 tadd tmul n W ninv
      (fun k => tmul (ofnat T t0 t1 tadd n) (X (Z.to_nat (ishift_idx (Z.of_nat n) (Z.of_nat k))))) m.
End Seg.
