(* Props/C13.v -- polarisation conversions are unitary, invertible and Stokes-consistent (over R, s = sqrt 2). *)
From Coq Require Import Reals List String ZArith.
From PB Require Import Gen.GenConsts Model.Pol Proofs.PolProofs Gen.GenPol Proofs.PolGen.
Import ListNotations.
Open Scope R_scope.

Notation toC := (to_circ R Rplus Rminus Rdiv Ropp (sqrt 2)).
Notation toL := (to_lin R Rplus Rminus Rdiv Ropp (sqrt 2)).
Notation SL := (stokes_lin R Rplus Rminus Rmult Ropp 2).
Notation SC := (stokes_circ R Rplus Rminus Rmult Ropp 2).
Notation N2 := (nrm2 R Rplus Rmult).

Theorem C13_unitary_to_circular : forall x y, let '(l, r) := toC x y in N2 l + N2 r = N2 x + N2 y.
Proof. exact (unitary_circ (sqrt 2) sqrt2_ok). Qed.
Theorem C13_unitary_to_linear : forall l r, let '(x, y) := toL l r in N2 x + N2 y = N2 l + N2 r.
Proof. exact (unitary_lin (sqrt 2) sqrt2_ok). Qed.
Theorem C13_inverse_lin_circ : forall x y, let '(l, r) := toC x y in toL l r = (x, y).
Proof. exact (lin_circ_inverse (sqrt 2) sqrt2_ok). Qed.
Theorem C13_inverse_circ_lin : forall l r, let '(x, y) := toL l r in toC x y = (l, r).
Proof. exact (circ_lin_inverse (sqrt 2) sqrt2_ok). Qed.
Theorem C13_identity_in_own_basis : forall a b,
  to_linear R Rplus Rminus Rdiv Ropp (sqrt 2) false a b = (a, b) /\ to_circular R Rplus Rminus Rdiv Ropp (sqrt 2) true a b = (a, b).
Proof. intros a b. split; reflexivity. Qed.
Theorem C13_stokes_formulas : forall xr xi yr yi,
  SL (xr, xi) (yr, yi) = [ (xr*xr + xi*xi) + (yr*yr + yi*yi); (xr*xr + xi*xi) - (yr*yr + yi*yi);
                           2 * (xr*yr + xi*yi); 2 * (xr*yi - xi*yr) ].
Proof. exact stokes_formulas. Qed.
Theorem C13_basis_independent : forall x y, let '(l, r) := toC x y in SC l r = SL x y.
Proof. exact (stokes_basis_independent (sqrt 2) sqrt2_ok). Qed.
Theorem C13_IQUV : forall x y, match SL x y with [si; sq; su; sv] => si * si = sq * sq + su * su + sv * sv /\ 0 <= si | _ => False end.
Proof. exact stokes_IQUV. Qed.
Theorem C13_I_is_total_intensity : forall x y, nth 0 (SL x y) 0 = to_intensity R Rplus Rmult x + to_intensity R Rplus Rmult y.
Proof. exact stokes_I_is_total_intensity. Qed.
Theorem C13_component_names : stokes_index "I" = Some 0%Z /\ stokes_index "Q" = Some 1%Z /\ stokes_index "U" = Some 2%Z /\
                              stokes_index "V" = Some 3%Z /\ stokes_index "X" = None.
Proof. exact stokes_names. Qed.

(* tie to the source by translation (T11): the formulas of to_intensity, to_linear, to_circular and both branches of to_stokes are
   GENERATED from core.py on this run over the same abstract carrier; the model's definitions are EQUAL to them for every carrier - in
   particular for R (the theorems above) and for binary64 (the instance run against the code) *)
Theorem C13_generated : forall (T : Type) (add sub mul div : T -> T -> T) (opp : T -> T) (two s : T) (a b : Cx T),
  to_intensity T add mul a = gen_intensity T add mul a /\
  to_lin T add sub div opp s a b = gen_to_lin T add sub div opp s a b /\
  to_circ T add sub div opp s a b = gen_to_circ T add sub div opp s a b /\
  stokes_lin T add sub mul opp two a b = gen_stokes_lin T add sub mul opp two a b /\
  stokes_circ T add sub mul opp two a b = gen_stokes_circ T add sub mul opp two a b.
Proof.
  exact (fun T add sub mul div opp two s a b =>
    conj (to_intensity_generated T add mul a) (conj (to_lin_generated T add sub div opp s a b) (conj (to_circ_generated T add sub div opp s a b)
    (conj (stokes_lin_generated T add sub mul opp two a b) (stokes_circ_generated T add sub mul opp two a b))))).
Qed.

Print Assumptions C13_unitary_to_circular.
Print Assumptions C13_inverse_lin_circ.
Print Assumptions C13_inverse_circ_lin.
Print Assumptions C13_basis_independent.
Print Assumptions C13_IQUV.
Print Assumptions C13_component_names.
Print Assumptions C13_generated.
