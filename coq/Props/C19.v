(* Props/C19.v -- real_to_complex is the exact analytic-baseband conversion. *)
From Coq Require Import ZArith Reals.
From Coquelicot Require Import Complex.
From PB Require Import Lib.Dft Lib.DftC Model.Hilbert Proofs.HilbertProofs Proofs.HilbertC Proofs.HilbertTone Gen.GenHilbert Proofs.HilbertGen.

(* the Hilbert weights, as the code assigns them, pair up to 2 for EVERY N >= 1 (DC / Nyquist, both parities) *)
Theorem C19_weights : forall N k, (1 <= N)%Z -> (0 <= k < N)%Z -> (h N k + h N ((N - k) mod N) = 2)%Z.
Proof. exact weights_pair. Qed.
Theorem C19_len : forall N, (0 <= N)%Z -> out_len N = ((N + 1) / 2)%Z.          (* ceil(N/2); N = 0 -> 0 *)
Proof. exact out_len_ceil. Qed.
Theorem C19_decimation_index : forall N m, (0 <= N)%Z -> (0 <= m < out_len N)%Z -> (0 <= 2 * m < N)%Z.
Proof. exact out_len_index. Qed.
(* real part of the analytic signal is the input: every real input, every N >= 1, every sample *)
Theorem C19_real : forall (n : nat) (npos : (0 < n)%nat) (x : nat -> R) (m : nat), (m < n)%nat ->
  fst (analyticC n (fun j => RtoC (x j)) m) = x m.
Proof. exact analytic_real_part_C. Qed.
(* mixing by exp(-i pi/2 k) then keeping even k: the factor is the real sign (-1)^m, so (-1)^m Re(out m) = x(2m) *)
Theorem C19_mix : forall m, cpow (Copp Ci) (2 * m) = RtoC ((-1) ^ m).
Proof. exact mix_even. Qed.
Theorem C19_dtype : out_dtype true false = Some 0%Z /\ out_dtype false false = Some 1%Z /\ forall b, out_dtype b true = None.
Proof. repeat split; reflexivity. Qed.
(* the whole conversion over C (rtcC n x m := analytic signal of x at 2m, times (-i)^(2m)), every n >= 1: it is linear; the analytic
   signal of the REAL tone cos(2 pi w j / n), 0 < 2w < n, is the complex tone exp(2 pi i w j / n) (negative frequency removed);
   and the conversion maps it to exp(2 pi i (w - n/4)(2m)/n): a tone at w - n/4 cycles per n samples *)
Theorem C19_linear : forall (n : nat), (0 < n)%nat -> forall a x b y m,
  rtcC n (fun j => Cplus (Cmult a (x j)) (Cmult b (y j))) m = Cplus (Cmult a (rtcC n x m)) (Cmult b (rtcC n y m)).
Proof. exact rtc_linear_C. Qed.
Theorem C19_analytic_tone : forall (n : nat), (0 < n)%nat -> forall (w m : nat), (0 < w)%nat -> (2 * w < n)%nat ->
  analyticC n (real_tone n w) m = tone C (W n) w m.
Proof. exact analytic_real_tone. Qed.
Theorem C19_tone : forall (n : nat), (0 < n)%nat -> forall (w m : nat), (0 < w)%nat -> (2 * w < n)%nat ->
  rtcC n (real_tone n w) m =
  (cos (2 * PI * ((INR w - INR n / 4) * INR (2 * m)) / INR n), sin (2 * PI * ((INR w - INR n / 4) * INR (2 * m)) / INR n)).
Proof. exact rtc_real_tone. Qed.
(* axis independence and scipy.fft = this DFT are checked against the code by the correspondence run. *)

(* tie to the source by translation (T8): the weights as the sequence of array writes of utils.real_to_complex (zeros; h[0] = 1;
   h[1 : N // 2] = 2 through CPython slice normalisation; h[N // 2] = 2 if N % 2 else 1 when N > 1 - the last write wins), the output
   length from the decimation slice, the dtype rule, the decimation step and the direction of the mixing ramp are GENERATED from the
   source on this run; the closed forms of the model are proved equal to them *)
Theorem C19_generated_weights : forall N k, (0 <= k < N)%Z -> h N k = gen_h N k.
Proof. exact h_generated. Qed.
Theorem C19_generated_len : forall N, (0 <= N)%Z -> out_len N = gen_out_len N.
Proof. exact out_len_generated. Qed.
Theorem C19_generated_rest : (forall a b, out_dtype a b = gen_out_dtype a b) /\ gen_dec_step = 2%Z /\
  (forall j : nat, (- Z.of_nat j = gen_mix_quarter_turns * Z.of_nat j)%Z).
Proof. exact (conj out_dtype_generated (conj dec_step_generated mix_generated)). Qed.

Print Assumptions C19_weights.
Print Assumptions C19_len.
Print Assumptions C19_real.
Print Assumptions C19_mix.
Print Assumptions C19_tone.
Print Assumptions C19_linear.
Print Assumptions C19_generated_weights.
Print Assumptions C19_generated_len.
