(* Props/C05.v -- coherent dedispersion: cold-plasma chirp, group delay, crop to valid times. *)
From Coq Require Import ZArith QArith Qround Qminmax Reals.
From Coquelicot Require Import Coquelicot.
From PB Require Import Gen.GenConsts Model.Ledger Model.Band Model.Disp Proofs.LedgerProofs Proofs.DispProofs Proofs.ChirpR Lib.Dft Lib.DftC Proofs.ChirpFilter Gen.GenDisp Proofs.DispGen.

(* exact part, over Q *)
Theorem C05_constant : (Kdisp == 1000000 # 241)%Q.
Proof. exact Kdisp_value. Qed.
Theorem C05_delay_between : forall dm fmin fmax fr f, (0 < fmin)%Q -> (fmin <= f <= fmax)%Q ->
  (Qmin (time_delay dm fmax fr) (time_delay dm fmin fr) <= time_delay dm f fr <= Qmax (time_delay dm fmax fr) (time_delay dm fmin fr))%Q.
Proof. exact delay_between. Qed.
Theorem C05_crop_sound : forall N dtop dbot d n,
  (Qmin dtop dbot <= d <= Qmax dtop dbot)%Q ->
  (crop_start dtop dbot <= n < crop_stop N dtop dbot)%Z ->
  (0 <= inject_Z n + d <= inject_Z (N - 1))%Q.
Proof. exact crop_sound. Qed.
Theorem C05_crop_tight_front : forall dtop dbot, (0 < crop_start dtop dbot)%Z ->
  (inject_Z (crop_start dtop dbot - 1) + Qmin dtop dbot < 0)%Q.
Proof. exact crop_tight_front. Qed.
(* the crop is a slice: start time advanced by the front crop (C01) *)
Theorem C05_crop_ledger : forall l fmax fmin dm fr l' off stride,
  (0 < rate l)%Q -> (0 <= len l)%Z -> coherent_crop l fmax fmin dm fr = Ok l' off stride -> sound l l' off stride.
Proof. intros l fmax fmin dm fr l' off stride Hr Hl H. unfold coherent_crop in H. exact (step_sound _ _ _ _ _ Hr Hl H). Qed.

(* analytic part, over R *)
Theorem C05_unit_modulus : forall K DM f fr, Cmod (chirpR K DM f fr) = 1%R.
Proof. exact chirp_unit. Qed.
Theorem C05_group_delay : forall K DM f fr, f <> 0%R -> fr <> 0%R ->
  is_derive (fun f => phaseR K DM f fr) f (- delayR K DM f fr)%R.
Proof. exact group_delay. Qed.
Theorem C05_inverse_partial : forall K DM f fr, Cmult (chirpR K DM f fr) (chirpR K (- DM) f fr) = RtoC 1.
Proof. exact chirp_inverse. Qed.
(* the filtering itself, over the complex numbers, for EVERY length n >= 1, every input x and every assignment fbin of absolute
   frequencies to the DFT bins of a channel (dedisp K DM fr x := IDFT (DFT x . chirp at fbin), the DFT of Lib/Dft.v):
   bin k of the result is bin k of the input times the transfer function at fbin k; a tone comes out multiplied by the transfer
   function at its own frequency (with C05_group_delay: advanced by its dispersion delay); the operation is linear; two passes
   compose to the summed DM; DM then -DM (uncropped) returns every input sample *)
Theorem C05_spectrum : forall (n : nat), (0 < n)%nat -> forall (fbin : nat -> R) K DM fr (x : nat -> C) (k : nat), (k < n)%nat ->
  Cdft n (dedisp n fbin K DM fr x) k = Cmult (Cdft n x k) (chirpR K DM (fbin k) fr).
Proof. exact dedisp_spectrum. Qed.
Theorem C05_tone : forall (n : nat), (0 < n)%nat -> forall (fbin : nat -> R) K DM fr (k0 m : nat), (k0 < n)%nat ->
  dedisp n fbin K DM fr (tone C (W n) k0) m = Cmult (chirpR K DM (fbin k0) fr) (tone C (W n) k0 m).
Proof. exact dedisp_tone. Qed.
Theorem C05_linear : forall (n : nat), (0 < n)%nat -> forall (fbin : nat -> R) K DM fr a x b y m,
  dedisp n fbin K DM fr (fun j => Cplus (Cmult a (x j)) (Cmult b (y j))) m =
  Cplus (Cmult a (dedisp n fbin K DM fr x m)) (Cmult b (dedisp n fbin K DM fr y m)).
Proof. exact dedisp_linear. Qed.
Theorem C05_compose : forall (n : nat), (0 < n)%nat -> forall (fbin : nat -> R) K DM1 DM2 fr x m,
  dedisp n fbin K DM2 fr (dedisp n fbin K DM1 fr x) m = dedisp n fbin K (DM1 + DM2) fr x m.
Proof. exact dedisp_compose. Qed.
Theorem C05_roundtrip_uncropped : forall (n : nat), (0 < n)%nat -> forall (fbin : nat -> R) K DM fr x (m : nat), (m < n)%nat ->
  dedisp n fbin K (- DM) fr (dedisp n fbin K DM fr x) m = x m.
Proof. exact dedisp_roundtrip. Qed.
(* partial: the CROPPED two-pass round trip on a compactly supported input (the crop between the passes drops part of the
   filter's response) and scipy.fft = this DFT are checked numerically by the harness. *)

(* tie to the source by translation (T5, with its unit algebra): the chirp phase in cycles and the sign of the exponent, the delay in
   samples, which band edge feeds which delay and the start / stop of the crop are the terms GENERATED from dedispersion.py on this run *)
Theorem C05_generated_phase : forall dm f fr, (chirp_phase dm f fr == gen_chirp_phase dm f fr)%Q /\ gen_chirp_sign = (-1)%Z.
Proof. exact (fun dm f fr => conj (chirp_phase_generated dm f fr) chirp_sign_generated). Qed.
Theorem C05_generated_delay : forall dm f fr rate, (sample_delay dm f fr rate == gen_sample_delay dm f fr rate)%Q.
Proof. exact sample_delay_generated. Qed.
Theorem C05_generated_crop : forall (l : ledger) (fmax fmin dm fr : Q),
  coherent_crop l fmax fmin dm fr =
  step l (ODedispCrop (gen_crop_start (gen_delay_top dm fmax fmin fr (rate l)) (gen_delay_bot dm fmax fmin fr (rate l)))
                      (gen_crop_stop (len l) (gen_delay_top dm fmax fmin fr (rate l)) (gen_delay_bot dm fmax fmin fr (rate l)))).
Proof. exact coherent_crop_generated. Qed.

Print Assumptions C05_crop_sound.
Print Assumptions C05_delay_between.
Print Assumptions C05_crop_ledger.
Print Assumptions C05_group_delay.
Print Assumptions C05_inverse_partial.
Print Assumptions C05_spectrum.
Print Assumptions C05_roundtrip_uncropped.
Print Assumptions C05_compose.
Print Assumptions C05_generated_crop.
Print Assumptions C05_generated_phase.
