(* probe: the polyco evaluation of PhasePredictor equals the tempo formula (C08 core), exact over Q *)
From Coq Require Import QArith Lqa List.
Import ListNotations.
Open Scope Q_scope.

Fixpoint peval (cs : list Q) (x : Q) : Q := match cs with [] => 0 | c :: cs' => c + x * peval cs' x end.

(* Polynomial(coeffs, domain=[-60, 60]).convert(): coefficient i is divided by 60^i *)
Fixpoint conv (k : Q) (cs : list Q) : list Q := match cs with [] => [] | c :: cs' => (c / k) :: conv (k * 60) cs' end.

Lemma peval_conv cs : forall k x, ~ k == 0 -> peval (conv k cs) x * k == peval cs (x / 60) .
Proof.
  induction cs as [|c cs IH]; intros k x Hk; cbn [conv peval].
  - ring.
  - assert (H60 : ~ k * 60 == 0) by (intro E; apply Hk; lra).
    specialize (IH (k * 60) x H60).
    setoid_replace ((c / k + x * peval (conv (k * 60) cs) x) * k) with (c + (x / 60) * (peval (conv (k * 60) cs) x * (k * 60))) by (field; exact Hk).
    rewrite IH. ring.
Qed.

(* from_polyco: coeffs[0] += frac(rphase); coeffs[1] += 60 * F0; poly = convert; __call__: rphase_int + poly(dt_seconds) *)
Definition predict (rint rfrac f0 : Q) (c0 c1 : Q) (rest : list Q) (dt_s : Q) : Q :=
  rint + peval (conv 1 ((c0 + rfrac) :: (c1 + 60 * f0) :: rest)) dt_s.

(* tempo: PHASE = RPHASE + DT*60*F0 + COEFF(1) + DT*COEFF(2) + DT^2*COEFF(3) + ... , DT in minutes *)
Definition tempo (rphase f0 : Q) (coeffs : list Q) (DT : Q) : Q := rphase + DT * 60 * f0 + peval coeffs DT.

Theorem predict_is_tempo rint rfrac f0 c0 c1 rest dt_s :
  predict rint rfrac f0 c0 c1 rest dt_s == tempo (rint + rfrac) f0 (c0 :: c1 :: rest) (dt_s / 60).
Proof.
  unfold predict, tempo.
  assert (H1 : ~ 1 == 0) by discriminate.
  pose proof (peval_conv ((c0 + rfrac) :: (c1 + 60 * f0) :: rest) 1 dt_s H1) as H.
  rewrite Qmult_1_r in H. rewrite H. cbn [peval]. ring.
Qed.

(* formal derivative and f0: deriv(n+1) of the phase polynomial *)
Fixpoint deriv_from (k : Q) (cs : list Q) : list Q := match cs with [] => [] | c :: cs' => (k * c) :: deriv_from (k + 1) cs' end.
Definition deriv (cs : list Q) : list Q := match cs with [] => [] | _ :: cs' => deriv_from 1 cs' end.
(* phasepol recentring: q(x) = p(x + dt) ; here the statement for evaluation *)
Print Assumptions predict_is_tempo.
