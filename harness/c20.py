"""C20: pb.fft equals the reference DFT on both backends; STFT/ISTFT invert and label right.
(P) Props/C20.v; (T) translator T2 regenerates _FFT_FUNCS (the dispatch theorem is about the generated list) and Model/Stft.v is
evaluated by vm_compute on the exact band of every STFT case: channel count, width and every label compared with channel_freqs;
(M) every name of pb.fft against scipy.fft, numpy.fft and (for fft/ifft) a direct longdouble DFT matrix, on NumPy and lazily on Dask
arrays chunked off the transformed axes; unknown names raise AttributeError; STFT of tones at known absolute frequency peaks in the
sub-channel carrying that label; sample rate / start time / length; ISTFT(STFT(z)) = z in samples, rate, start and labels."""
from fractions import Fraction as Fr
import numpy as np
import scipy.fft
import astropy.units as u
from astropy.time import Time
import dask.array as da
import pulsarbat as pb
from harness import exact as X
from harness.common import asked_before
from harness.common import qlit, zlit, listlit

VFILES = ['Gen/GenConsts.v', 'Lib/PySlice.v', 'Lib/Dft.v', 'Lib/DftC.v', 'Model/Band.v', 'Model/Shift.v', 'Model/Stft.v', 'Proofs/BandProofs.v',
          'Proofs/StftProofs.v', 'Gen/GenStft.v', 'Proofs/StftGen.v', 'Props/C20.v']
REAL_AX = {'ClassicalDedekindReals.sig_forall_dec', 'ClassicalDedekindReals.sig_not_dec',
           'FunctionalExtensionality.functional_extensionality_dep', 'Classical_Prop.classic'}
NAMES = ['fft', 'fft2', 'fftn', 'ifft', 'ifft2', 'ifftn', 'rfft', 'rfft2', 'rfftn', 'irfft', 'irfft2', 'irfftn', 'hfft', 'ihfft']

HEADER = '''From Coq Require Import ZArith QArith Qabs String List Bool. Import ListNotations.
From PB Require Import Model.Band Model.Stft.
Open Scope Z_scope.
Definition chk_dispatch (name : string) (impl_ok : bool) : Z :=
  match dispatch name, impl_ok with Some t, true => if String.eqb t name then 0 else 1 | None, false => 0 | _, _ => 2 end.
(* STFT band: nchan, channel width, every label, alignment; then the ISTFT band *)
Definition chk_stft (cf0 bw0 : Q) (n a P : Z) (tol : Q) (on : Z) (obw : Q) (oal : Z) (olabels : list Q) : Z :=
  match stft_band (mk_band cf0 bw0 n a) P with
  | Some sb => (if (nchan sb =? on) then 0 else 1) + (if Qclose tol (bw sb) obw then 0 else 2) + (if (align sb =? oal) then 0 else 4) +
               (if all_close tol (labels sb) olabels then 0 else 8)
  | None => 16
  end.
Definition chk_istft (cf0 bw0 : Q) (n a P : Z) (tol : Q) (on : Z) (obw : Q) (olabels : list Q) : Z :=
  match stft_band (mk_band cf0 bw0 n a) P with
  | Some sb => let rb := istft_band sb P in
               (if (nchan rb =? on) then 0 else 1) + (if Qclose tol (bw rb) obw then 0 else 2) + (if all_close tol (labels rb) olabels then 0 else 8)
  | None => 16
  end.
Definition chk_len (len P out back : Z) : Z := (if stft_len len P =? out then 0 else 1) + (if istft_len (stft_len len P) P =? back then 0 else 2).
'''
ALIGN = {'bottom': 0, 'center': 1, 'top': 2}


def dft_matrix(x, axis, inverse=False):
    N = x.shape[axis]
    n = np.arange(N, dtype=np.longdouble)
    sgn = 1 if inverse else -1
    M = np.exp(sgn * 2j * np.pi * np.longdouble(1) * np.outer(n, n) / N)
    y = np.tensordot(M, np.moveaxis(x.astype(np.clongdouble), axis, 0), axes=(1, 0))
    if inverse:
        y = y / N
    return np.moveaxis(y, 0, axis)


def run(ctx):
    rng = ctx.rng
    nprng = np.random.default_rng(ctx.seed + 20)
    ctx.rule = ('all 14 names x ranks 1..3 x every axis / axes pair x n in {None, shorter, longer} x norm in {None, ortho, forward} x real/complex '
                'float32/64 input, NumPy and Dask (chunked off the transformed axes, lazily); attribute names outside the list; STFT / ISTFT on '
                'baseband signals with 1..4 channels (x2 pols), three alignments, nperseg odd / even / 1 / = length / not dividing the length, '
                'tones at known absolute frequencies, with and without start time. distinct by arguments.')
    ctx.trusted = ['translator T9 translate/py_stft2coq.py (bookkeeping of stft / istft; reshape / swapaxes / fftshift / FFT lines pinned) and the T2 pin of the pb.fft wrapper bodies', 'Coq 8.16.1 kernel; stdlib real-number axioms (segment inversion over C)', 'translator T2 (_FFT_FUNCS, guard, target name, dask branch read from fft.py)',
                   'scipy.fft = the mathematical DFT (validated against a direct longdouble DFT matrix for fft / ifft on every case)']
    ctx.assumptions = ['values within 1e-10*N*max|x| (double) / 2e-5*max|x| (single) of the reference; exact equality with scipy.fft on the same input']
    built = ctx.build(['Props/C20.vo'])
    ctx.count_obligations(VFILES)
    if built:
        ctx.assumptions_of('Props/C20.v', allowed=REAL_AX)
    items, meta = [], []

    # ---- names
    for name in NAMES + ['dct', 'fftshift', 'fftfreq', 'next_fast_len', 'FFT', 'fft_', '', 'rfftfreq', 'idct', 'scipy', '__wrapped__x']:
        try:
            f = getattr(pb.fft, name)
            ok = callable(f)
        except AttributeError:
            ok = False
        except Exception as e:
            ctx.fail('unknown_name_wrong_error', dict(name=name), impl=repr(e))
            ok = False
        inp = dict(op='getattr', name=name)
        ctx.seen(inp)
        items.append(f'chk_dispatch "{name}" {"true" if ok else "false"}')
        meta.append(dict(inp=inp, impl=ok, kind='dispatch'))
        if (name in NAMES) != ok:
            ctx.fail('exposed_names_are_not_the_fourteen', inp, impl=ok)
    if sorted(dir(pb.fft)) != sorted(NAMES):
        ctx.fail('dir_pb_fft', dict(op='dir'), impl=sorted(dir(pb.fft)))

    # ---- transforms
    NC = 400 if ctx.tier == 'quick' else 8000
    for c in range(NC):
        name = rng.choice(NAMES)
        rank = rng.choice([1, 2, 3])
        shape = [rng.choice([1, 2, 3, 4, 5, 8, 9]) for _ in range(rank)]
        two = name.endswith('2')
        nd = name.endswith('n')
        if two and rank < 2:
            rank, shape = 2, shape + [rng.choice([2, 3, 4])]
        real_in = name in ('rfft', 'rfft2', 'rfftn', 'ihfft')
        single = rng.random() < 0.3
        x = nprng.standard_normal(shape)
        if not real_in:
            x = x + 1j * nprng.standard_normal(shape)
        x = x.astype((np.float32 if single else np.float64) if real_in else (np.complex64 if single else np.complex128))
        kw = {}
        if two:
            axes = tuple(rng.sample(range(rank), 2))
            if rng.random() < 0.7:
                kw['axes'] = axes
            else:
                axes = (rank - 2, rank - 1)
        elif nd:
            k = rng.randint(1, rank)
            axes = tuple(rng.sample(range(rank), k))
            if rng.random() < 0.7:
                kw['axes'] = axes
            else:
                axes = tuple(range(rank))
        else:
            ax = rng.randrange(rank)
            axes = (ax,)
            if rng.random() < 0.7 or ax != rank - 1:
                kw['axis'] = ax if rng.random() < 0.5 else ax - rank
        if rng.random() < 0.3 and not two and not nd:
            kw['n'] = rng.choice([1, 2, 3, 5, 8, 12])
        if rng.random() < 0.3:
            kw['norm'] = rng.choice(['ortho', 'forward', 'backward'])
        use_dask = rng.random() < 0.3
        inp = dict(op='transform', name=name, shape=shape, dtype=str(x.dtype), kw={k: (list(v) if isinstance(v, tuple) else v) for k, v in kw.items()}, dask=use_dask)
        ctx.seen(inp); ctx.count('name:' + name); ctx.count('dask' if use_dask else 'numpy')
        try:
            ref = getattr(scipy.fft, name)(x, **kw)
        except Exception as e:
            ctx.count('reference_rejects')
            try:
                getattr(pb.fft, name)(x, **kw)
                ctx.fail('accepted_what_reference_rejects', inp)
            except Exception:
                pass
            continue
        try:
            if use_dask:
                chunks = tuple((-1 if i in [a % rank for a in axes] else 1) for i in range(rank))
                xd = da.from_array(x, chunks=chunks)
                yd = getattr(pb.fft, name)(xd, **kw)
                if not isinstance(yd, da.Array):
                    ctx.fail('dask_result_not_lazy', inp, impl=type(yd).__name__)
                    continue
                y = yd.compute()
            else:
                y = getattr(pb.fft, name)(x, **kw)
        except Exception as e:
            if use_dask and ('n' in kw or 'norm' in kw or two or nd or name in ('hfft', 'ihfft')):
                ctx.count('dask_wrapper_rejects_option')     # dask's fft_wrap supports a subset of the keyword forms
                continue
            ctx.fail('transform_raised', inp, impl=repr(e))
            continue
        y = np.asarray(y)
        if y.shape != ref.shape or (y.dtype != ref.dtype and not use_dask):
            ctx.fail('shape_or_dtype', inp, impl=[list(y.shape), str(y.dtype)], model=[list(ref.shape), str(ref.dtype)])
            continue
        mx = float(np.max(np.abs(ref))) + 1e-300
        tol = (2e-5 if single else 1e-10 * max(shape)) * mx
        e = float(np.max(np.abs(y - ref))) if y.size else 0.0
        ctx.ratio(e, tol)
        if (not use_dask and not np.array_equal(y, ref, equal_nan=True)) or e > tol:
            ctx.fail('differs_from_reference_transform', inp, impl=e, model=tol)
            continue
        if name in ('fft', 'ifft') and 'n' not in kw and kw.get('norm') in (None, 'backward'):
            d = dft_matrix(x, axes[0], inverse=(name == 'ifft'))
            e2 = float(np.max(np.abs(y - d)))
            if e2 > (4e-5 if single else 1e-10 * max(shape)) * (float(np.max(np.abs(d))) + 1e-300):
                ctx.fail('differs_from_dft_matrix', inp, impl=e2)

    # ---- STFT / ISTFT
    NS = 150 if ctx.tier == 'quick' else 3000
    for c in range(NS):
        cls = rng.choice(['BasebandSignal', 'BasebandSignal', 'DualPolarizationSignal'])
        nchan = rng.choice([1, 2, 3, 4])
        ss = (nchan,) if cls == 'BasebandSignal' else (nchan, 2)
        P = rng.choice([1, 2, 3, 4, 5, 6, 8])
        L = rng.choice([P, 2 * P, 3 * P, 3 * P + rng.randint(0, P - 1) if P > 1 else 4, 24, 30])
        if L < P:
            L = P
        align = rng.choice(['bottom', 'center', 'top'])
        sr_hz = rng.choice([1.0, 8.0, 1000.0, 1e6, 3.2e9, 1 / 3])
        cf_hz = rng.choice([0.0, 1000.0, 4e8, 1.4e9])
        start = Time('2021-03-04T05:06:07.123456789', precision=9) if rng.random() < 0.7 else None
        single = rng.random() < 0.3
        n = np.arange(L)
        # one tone per channel at DFT bin jb of a P-sample segment (signed), so that it falls exactly in one sub-channel
        jb = [rng.randrange(P) for _ in range(nchan)]
        data = np.zeros((L,) + ss, dtype=np.complex128)
        noise = 1e-3 * (nprng.standard_normal((L,) + ss) + 1j * nprng.standard_normal((L,) + ss))
        for i in range(nchan):
            tone = np.exp(2j * np.pi * (jb[i] - P // 2) * n / P)
            data[(slice(None), i) + (Ellipsis,)] = tone.reshape((L,) + (1,) * (len(ss) - 1))
        data = (data + noise).astype(np.complex64 if single else np.complex128)
        data0 = data.copy()
        kw = dict(sample_rate=sr_hz * u.Hz, center_freq=cf_hz * u.Hz, freq_align=align, start_time=start)
        if cls == 'DualPolarizationSignal':
            kw['pol_type'] = 'linear'
        z = getattr(pb, cls)(data, **kw)
        inp = dict(op='stft', cls=cls, nchan=nchan, P=P, L=L, align=align, sr=sr_hz, cf=cf_hz, dtype=str(data.dtype), has_start=start is not None)
        ctx.seen(inp); ctx.count('stft:P%d' % P); ctx.count('align:' + align)
        if asked_before(ctx, rng, lambda: pb.contrib.istft(pb.contrib.stft(z, nperseg=P), nperseg=P)):
            inp['asked_before'] = True
        try:
            s = pb.contrib.stft(z, nperseg=P)
        except Exception as e:
            ctx.fail('stft_raised', inp, impl=repr(e))
            continue
        zf = [Fr(float(v)) for v in z.channel_freqs.to_value(u.Hz)]
        sf = [Fr(float(v)) for v in s.channel_freqs.to_value(u.Hz)]
        tol = Fr(abs(cf_hz) + sr_hz * (nchan + 2)) / 2 ** 44
        eff_align = ALIGN[z.freq_align]
        items.append(f'chk_stft {qlit(Fr(cf_hz))} {qlit(Fr(sr_hz))} {nchan} {eff_align} {P} {qlit(tol)} {s.nchan} {qlit(X.hz(s.chan_bw))} '
                     f'{ALIGN[s.freq_align]} {listlit(sf, qlit)}')
        meta.append(dict(inp=inp, impl=[float(v) for v in sf], kind='stft band'))
        items.append(f'chk_len {L} {P} {len(s)} {len(s) * P}')
        meta.append(dict(inp=inp, impl=len(s), kind='stft length'))
        # monitor: labels are the true frequencies of the content
        bad = False
        if s.nchan != nchan * P or len(s) != L // P or type(s) is not type(z):
            ctx.fail('stft_shape', inp, impl=[len(s), s.nchan])
            continue
        if abs(X.hz(s.sample_rate) - Fr(sr_hz) / P) > tol or (s.start_time is None) != (start is None) or \
           (start is not None and abs(X.sec(s.start_time) - X.sec(z.start_time)) > Fr(1, 10 ** 10)):
            ctx.fail('stft_rate_or_start', inp, impl=[str(s.sample_rate), str(s.start_time)])
            continue
        for i in range(nchan):
            for j in range(P):
                want = zf[i] + (j - P // 2) * Fr(sr_hz) / P
                if abs(sf[i * P + j] - want) > tol:
                    ctx.fail('stft_label_not_true_frequency', dict(inp, i=i, j=j), impl=float(sf[i * P + j]), model=float(want))
                    bad = True
                    break
            if bad:
                break
        if bad:
            continue
        if len(s) > 0:
            sd = np.asarray(s.data).reshape(len(s), nchan * P, -1)
            pw = np.mean(np.abs(sd) ** 2, axis=(0, 2))
            for i in range(nchan):
                peak = int(np.argmax(pw[i * P:(i + 1) * P]))
                true_f = zf[i] + (jb[i] - P // 2) * Fr(sr_hz) / P
                if abs(sf[i * P + peak] - true_f) > tol:
                    ctx.fail('tone_in_wrongly_labelled_subchannel', dict(inp, i=i), impl=float(sf[i * P + peak]), model=float(true_f))
                    bad = True
                    break
        if bad:
            continue
        # ISTFT round trip ("ISTFT of the STFT returns the original samples": of the STFT signal as held by the caller, however
        # often it is inverted -- so the STFT signal must come out of istft unchanged and a second inversion must agree)
        s_before = np.array(np.asarray(s.data), copy=True)
        try:
            r = pb.contrib.istft(s, nperseg=P)
            r2 = pb.contrib.istft(s, nperseg=P)
        except Exception as e:
            ctx.fail('istft_raised', inp, impl=repr(e))
            continue
        if not np.array_equal(np.asarray(s.data), s_before) or not np.array_equal(np.asarray(z.data), data0):
            ctx.fail('stft_or_istft_modified_its_input', inp)
            continue
        if r2.shape != r.shape or not np.array_equal(np.asarray(r2.data), np.asarray(r.data)):
            ctx.fail('second_istft_of_the_same_stft_differs', inp)
            continue
        rf = [Fr(float(v)) for v in r.channel_freqs.to_value(u.Hz)]
        items.append(f'chk_istft {qlit(Fr(cf_hz))} {qlit(Fr(sr_hz))} {nchan} {eff_align} {P} {qlit(tol)} {r.nchan} {qlit(X.hz(r.chan_bw))} {listlit(rf, qlit)}')
        meta.append(dict(inp=inp, impl=[float(v) for v in rf], kind='istft band'))
        Lt = L - L % P
        tolv = (2e-5 if single else 1e-12) * (float(np.max(np.abs(data))) + 1e-300)
        if len(r) != Lt or type(r) is not type(z) or r.shape[1:] != z.shape[1:]:
            ctx.fail('istft_shape', inp, impl=list(r.shape), model=[Lt] + list(z.shape[1:]))
        elif Lt and float(np.max(np.abs(np.asarray(r.data) - data[:Lt]))) > tolv:
            ctx.fail('istft_does_not_return_the_samples', inp, impl=float(np.max(np.abs(np.asarray(r.data) - data[:Lt]))))
        elif abs(X.hz(r.sample_rate) - Fr(sr_hz)) > tol or any(abs(a - b) > tol for a, b in zip(rf, zf)) or len(rf) != len(zf) or \
                (r.start_time is None) != (start is None) or (start is not None and abs(X.sec(r.start_time) - X.sec(z.start_time)) > Fr(1, 10 ** 10)):
            ctx.fail('istft_metadata', inp, impl=[str(r.sample_rate), [float(v) for v in rf], str(r.start_time)], model=[float(v) for v in zf])
        if cls == 'DualPolarizationSignal' and getattr(r, 'pol_type', None) != 'linear':
            ctx.fail('istft_metadata', inp, impl='pol_type')

    res = ctx.run_cases(HEADER, items, shard=max(60, len(items) // 16 + 1))
    if res is None:
        return
    for r, m in zip(res, meta):
        if r:
            ctx.mismatch(f'{m["kind"]} model vs implementation (code {r})', m['inp'], impl=m['impl'])
