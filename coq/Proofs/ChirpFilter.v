(* Proofs/ChirpFilter.v -- C05: coherent dedispersion as a spectral filter over the complex numbers, every length n >= 1 and every
   assignment fbin of absolute frequencies to the DFT bins of a channel: bin k of the result is bin k of the input times the chirp at
   fbin k; a tone comes out multiplied by the chirp at its own frequency; the operation is linear; and filtering with DM and then
   with -DM (no crop) returns every input sample. *)
From Coq Require Import ZArith Reals Lia.
From Coquelicot Require Import Coquelicot.
From PB Require Import Lib.Dft Lib.DftC Proofs.ChirpR.

Section CF.
  Variable n : nat.
  Hypothesis npos : (0 < n)%nat.
  Variable fbin : nat -> R.

  Definition Cfilt (H x : nat -> C) : nat -> C := filt C (RtoC 0) Cplus Cmult n (W n) (RtoC (/ INR n)) H x.
  Definition Cdft (x : nat -> C) : nat -> C := dft C (RtoC 0) Cplus Cmult n (W n) x.
  Definition dedisp (K DM fr : R) (x : nat -> C) : nat -> C := Cfilt (fun k => chirpR K DM (fbin k) fr) x.

  Theorem dedisp_spectrum K DM fr x k : (k < n)%nat -> Cdft (dedisp K DM fr x) k = Cmult (Cdft x k) (chirpR K DM (fbin k) fr).
  Proof. intros Hk. apply (dft_filt_C n npos). exact Hk. Qed.

  Theorem dedisp_tone K DM fr k0 m : (k0 < n)%nat ->
    dedisp K DM fr (tone C (W n) k0) m = Cmult (chirpR K DM (fbin k0) fr) (tone C (W n) k0 m).
  Proof. intros H0. apply (filt_tone_C n npos). exact H0. Qed.

  Theorem dedisp_linear K DM fr a x b y m :
    dedisp K DM fr (fun j => Cplus (Cmult a (x j)) (Cmult b (y j))) m = Cplus (Cmult a (dedisp K DM fr x m)) (Cmult b (dedisp K DM fr y m)).
  Proof. apply (filt_linear_C n npos). Qed.

  Theorem dedisp_roundtrip K DM fr x m : (m < n)%nat -> dedisp K (- DM) fr (dedisp K DM fr x) m = x m.
  Proof. intros Hm. apply (filt_inverse_C n npos); [|exact Hm]. intros k _. apply chirp_inverse. Qed.

  (* two dedispersions compose to the one with the summed DM *)
  Theorem dedisp_compose K DM1 DM2 fr x m : dedisp K DM2 fr (dedisp K DM1 fr x) m = dedisp K (DM1 + DM2) fr x m.
  Proof.
    unfold dedisp, Cfilt. rewrite (filt_compose_C n npos). unfold filt, idft. f_equal.
    apply (sumf_ext C (RtoC 0) Cplus n npos). intros k _. f_equal. f_equal.
    unfold chirpR. rewrite <- cis_add. f_equal. unfold phaseR. ring.
  Qed.
End CF.
