(* probe: soundness of the bit-exact day_frac model (C07 core), part 1: from floats to rounded reals *)
From Coq Require Import ZArith Reals Psatz Floats.
From Flocq Require Import Core BinarySingleNaN PrimFloat.
From PB Require Import Proofs.TwoSumExact Model.Phase2 Proofs.Floor.
Open Scope R_scope.

Notation fexp := (FLT_exp (-1074) 53).
Notation rnd := (round radix2 fexp ZnearestE).

Definition bnd (x : PrimFloat.float) (k : Z) : Prop := fin x /\ Rabs (R_of x) <= bpow radix2 k.

Lemma bnd_weaken x k k' : (k <= k')%Z -> bnd x k -> bnd x k'.
Proof. intros H [F B]. split; [exact F|]. apply Rle_trans with (1:=B). apply bpow_le. exact H. Qed.

Lemma bpow_S k : bpow radix2 (k + 1) = 2 * bpow radix2 k.
Proof. rewrite bpow_plus_1. reflexivity. Qed.

Lemma add_b x y k : (-1074 < k + 1)%Z -> (k + 1 < 1024)%Z -> bnd x k -> bnd y k ->
  R_of (PrimFloat.add x y) = rnd (R_of x + R_of y) /\ bnd (PrimFloat.add x y) (k + 1).
Proof.
  intros K1 K2 [Fx Bx] [Fy By].
  assert (B : Rabs (R_of x + R_of y) <= bpow radix2 (k + 1)).
  { rewrite bpow_S. apply Rle_trans with (1:=Rabs_triang _ _). lra. }
  pose proof (rnd_bound _ _ K1 B) as B'.
  destruct (add_R x y Fx Fy) as [E F]. { apply Rle_lt_trans with (1:=B'). apply bpow_lt. lia. }
  split; [exact E|]. split; [exact F|]. rewrite E. exact B'.
Qed.

Lemma sub_b x y k : (-1074 < k + 1)%Z -> (k + 1 < 1024)%Z -> bnd x k -> bnd y k ->
  R_of (PrimFloat.sub x y) = rnd (R_of x - R_of y) /\ bnd (PrimFloat.sub x y) (k + 1).
Proof.
  intros K1 K2 [Fx Bx] [Fy By].
  assert (B : Rabs (R_of x - R_of y) <= bpow radix2 (k + 1)).
  { rewrite bpow_S. unfold Rminus. apply Rle_trans with (1:=Rabs_triang _ _). rewrite Rabs_Ropp. lra. }
  pose proof (rnd_bound _ _ K1 B) as B'.
  destruct (sub_R x y Fx Fy) as [E F]. { apply Rle_lt_trans with (1:=B'). apply bpow_lt. lia. }
  split; [exact E|]. split; [exact F|]. rewrite E. exact B'.
Qed.

Lemma opp_b x k : bnd x k -> R_of (PrimFloat.opp x) = - R_of x /\ bnd (PrimFloat.opp x) k.
Proof. intros [F B]. destruct (opp_R x) as [E F']. split; [exact E|]. split; [exact (F' F)|]. rewrite E, Rabs_Ropp. exact B. Qed.

Lemma ffloor_b x k : (0 <= k)%Z -> bnd x k ->
  R_of (ffloor x) = IZR (Zfloor (R_of x)) /\ bnd (ffloor x) (k + 1).
Proof.
  intros K [F B]. destruct (ffloor_spec x F) as [E F']. split; [exact E|]. split; [exact F'|].
  rewrite E, bpow_S. pose proof (Zfloor_lb (R_of x)). pose proof (Zfloor_ub (R_of x)).
  assert (1 <= bpow radix2 k) by (change 1 with (bpow radix2 0); apply bpow_le; exact K).
  apply Rabs_le. apply Rabs_le_inv in B. lra.
Qed.

Lemma two_sum_b a b k : (0 <= k)%Z -> (k <= 990)%Z -> bnd a k -> bnd b k ->
  let '(s, e) := two_sum a b in
  bnd s (k + 1) /\ bnd e (k + 2) /\ R_of s = rnd (R_of a + R_of b) /\ R_of s + R_of e = R_of a + R_of b.
Proof.
  intros K1 K2 [Fa Ba] [Fb Bb].
  assert (Ba' : Rabs (R_of a) <= bpow radix2 1000) by (apply Rle_trans with (1:=Ba); apply bpow_le; lia).
  assert (Bb' : Rabs (R_of b) <= bpow radix2 1000) by (apply Rle_trans with (1:=Bb); apply bpow_le; lia).
  pose proof (two_sum_exact a b Fa Fb Ba' Bb') as H. destruct (TwoSumExact.two_sum a b) as [s e] eqn:Ets.
  change (Phase2.two_sum a b) with (TwoSumExact.two_sum a b). rewrite Ets.
  destruct H as (Fs & Fe & Es & Hsum).
  assert (B : Rabs (R_of a + R_of b) <= bpow radix2 (k + 1)).
  { rewrite bpow_S. apply Rle_trans with (1:=Rabs_triang _ _). lra. }
  assert (Bs : Rabs (R_of s) <= bpow radix2 (k + 1)) by (rewrite Es; apply rnd_bound; [lia|exact B]).
  split; [split; assumption|]. split; [|split; assumption]. split; [exact Fe|].
  replace (R_of e) with ((R_of a + R_of b) - R_of s) by lra.
  replace (k + 2)%Z with ((k + 1) + 1)%Z by ring. rewrite bpow_S.
  unfold Rminus. apply Rle_trans with (1:=Rabs_triang _ _). rewrite Rabs_Ropp. lra.
Qed.

Lemma R_half : R_of 0.5%float = / 2 /\ fin 0.5%float.
Proof. unfold R_of, fin. split; [|reflexivity]. unfold Prim2B. cbn. unfold B2R, SF2B; cbn. unfold F2R; cbn. lra. Qed.
Lemma bnd_half k : (0 <= k)%Z -> bnd 0.5%float k.
Proof. intros K. destruct R_half as [E F]. split; [exact F|]. rewrite E, Rabs_pos_eq by lra.
  apply Rle_trans with 1; [lra|]. change 1 with (bpow radix2 0). apply bpow_le. exact K. Qed.

(* the rounded-real equations computed by day_frac *)
Inductive dayfrac_eqs (V1 V2 D F : R) : Prop :=
| DFE (S E : R) (d0 : Z) (ex0 fr0 f1 : R) (e1 : Z) (ex2 fr2 : R)
  (eq_S : S = rnd (V1 + V2))
  (eq_SE : S + E = V1 + V2)
  (eq_d0 : d0 = Zfloor (rnd (S + / 2)))
  (eq_ex0 : ex0 = rnd (S - IZR d0))
  (eq_sum0 : ex0 + fr0 = S - IZR d0)
  (eq_f1 : f1 = rnd (fr0 + rnd (ex0 + E)))
  (eq_e1 : e1 = Zfloor (rnd (f1 + / 2)))
  (eq_D : D = rnd (IZR d0 + IZR e1))
  (eq_ex2 : ex2 = rnd (S - D))
  (eq_sum2 : ex2 + fr2 = S - D)
  (eq_F : F = rnd (fr2 + rnd (ex2 + E))).

Theorem day_frac_eqs (v1 v2 : PrimFloat.float) :
  bnd v1 53 -> bnd v2 53 ->
  let '(d, f) := day_frac0 v1 v2 in
  fin d /\ fin f /\ dayfrac_eqs (R_of v1) (R_of v2) (R_of d) (R_of f).
Proof.
  intros B1 B2. unfold day_frac0.
  pose proof (two_sum_b v1 v2 53 ltac:(lia) ltac:(lia) B1 B2) as H.
  destruct (Phase2.two_sum v1 v2) as [sum12 err12]. destruct H as (Bs & Be & Es & Hse).
  (* day0 = floor (sum12 + 0.5) *)
  destruct (add_b sum12 0.5%float 54 ltac:(lia) ltac:(lia) Bs (bnd_half 54 ltac:(lia))) as [Ea0 Ba0].
  destruct R_half as [Eh _]. rewrite Eh in Ea0.
  destruct (ffloor_b _ 55 ltac:(lia) Ba0) as [Ed0 Bd0]. rewrite Ea0 in Ed0.
  set (day0 := ffloor (sum12 + 0.5)%float) in *.
  destruct (opp_b day0 56 Bd0) as [Eo Bo].
  pose proof (two_sum_b sum12 (- day0)%float 56 ltac:(lia) ltac:(lia) (bnd_weaken _ 54 56 ltac:(lia) Bs) Bo) as H.
  destruct (Phase2.two_sum sum12 (- day0)%float) as [extra frac]. destruct H as (Bex & Bfr & Eex & Hsum0).
  rewrite Eo in Eex, Hsum0.
  (* frac1 = frac + (extra + err12) *)
  destruct (add_b extra err12 57 ltac:(lia) ltac:(lia) Bex (bnd_weaken _ 55 57 ltac:(lia) Be)) as [Et0 Bt0].
  destruct (add_b frac (extra + err12)%float 58 ltac:(lia) ltac:(lia) Bfr Bt0) as [Ef1 Bf1].
  rewrite Et0 in Ef1. set (frac1 := (frac + (extra + err12))%float) in *.
  (* excess *)
  destruct (add_b frac1 0.5%float 59 ltac:(lia) ltac:(lia) Bf1 (bnd_half 59 ltac:(lia))) as [Ea1 Ba1].
  rewrite Eh in Ea1.
  destruct (ffloor_b _ 60 ltac:(lia) Ba1) as [Ee1 Be1]. rewrite Ea1 in Ee1.
  set (excess := ffloor (frac1 + 0.5)%float) in *.
  (* day *)
  destruct (add_b day0 excess 61 ltac:(lia) ltac:(lia) (bnd_weaken _ 56 61 ltac:(lia) Bd0) Be1) as [ED BD].
  rewrite Ed0, Ee1 in ED. set (day := (day0 + excess)%float) in *.
  destruct (opp_b day 62 BD) as [Eo2 Bo2].
  pose proof (two_sum_b sum12 (- day)%float 62 ltac:(lia) ltac:(lia) (bnd_weaken _ 54 62 ltac:(lia) Bs) Bo2) as H.
  destruct (Phase2.two_sum sum12 (- day)%float) as [extra2 frac2]. destruct H as (Bex2 & Bfr2 & Eex2 & Hsum2).
  rewrite Eo2 in Eex2, Hsum2.
  destruct (add_b extra2 err12 63 ltac:(lia) ltac:(lia) Bex2 (bnd_weaken _ 55 63 ltac:(lia) Be)) as [Et2 Bt2].
  destruct (add_b frac2 (extra2 + err12)%float 64 ltac:(lia) ltac:(lia) Bfr2 Bt2) as [EF BF].
  rewrite Et2 in EF.
  split; [exact (proj1 BD)|]. split; [exact (proj1 BF)|].
  apply DFE with (S := R_of sum12) (E := R_of err12) (d0 := Zfloor (rnd (R_of sum12 + / 2)))
            (ex0 := R_of extra) (fr0 := R_of frac) (f1 := R_of frac1)
            (e1 := Zfloor (rnd (R_of frac1 + / 2))) (ex2 := R_of extra2) (fr2 := R_of frac2); try assumption; try reflexivity.
  - rewrite Eex, Ed0. reflexivity.
  - rewrite Hsum0, Ed0. reflexivity.
Qed.
