"""Translator T6: the index logic of transforms.time_shift / freq_shift -> Gallina (Gen/GenShift.v).

Translated: the body of the `for a in it:` loop of both functions (the sign test, floor / ceil, the slice that is zero-filled, the
start / stop accumulation), the initial `start, stop = 0, 0`, the crop `x[start:max(start, len(x) + stop)]`, the sign of the phase ramp of
both functions and what the loop iterates over (shift itself / ft * len(x)).  Statements around them that the model relies on (the
dimension check, the allclose early exit, the padding index, the FFT lines) are pinned as syntax trees.

Fail-closed: anything outside the expected shapes raises Unsupported."""
import ast, pathlib, sys


class Unsupported(Exception):
    pass


def is_src(node, text):
    try:
        if isinstance(node, ast.stmt):
            return ast.dump(node) == ast.dump(ast.parse(text).body[0])
        return ast.dump(node) == ast.dump(ast.parse(text, mode='eval').body)
    except SyntaxError:
        return False


def find_func(tree, name):
    for n in tree.body:
        if isinstance(n, ast.FunctionDef) and n.name == name:
            return n
    raise Unsupported(name + ' not found')


def stmts(fn):
    return [s for s in fn.body if not (isinstance(s, ast.Expr) and isinstance(s.value, ast.Constant) and isinstance(s.value.value, str))]


SEEN = set()


def need(body, pin, what, count=1):
    hits = [st for st in body if is_src(st, pin)]
    if len(hits) != count:
        raise Unsupported(f'{what}: expected the statement  {pin}')
    SEEN.update(id(st) for st in hits)


def all_accounted(body, what):
    """every top-level statement was either translated or pinned: an added statement (another early exit, a rescaling) is refused"""
    for st in body:
        if id(st) not in SEEN:
            raise Unsupported(f'{what}: statement neither translated nor pinned: ' + ast.unparse(st)[:120])


def zexpr(n, env):
    """integer expression over start / stop / the rounded element"""
    if isinstance(n, ast.Name) and n.id in env:
        return env[n.id]
    if isinstance(n, ast.Constant) and isinstance(n.value, int) and not isinstance(n.value, bool):
        return f'{n.value}' if n.value >= 0 else f'({n.value})'
    if isinstance(n, ast.Call) and isinstance(n.func, ast.Name) and n.func.id in ('min', 'max') and len(n.args) == 2 and not n.keywords:
        return f'(Z.{n.func.id} {zexpr(n.args[0], env)} {zexpr(n.args[1], env)})'
    if isinstance(n, ast.Call) and isinstance(n.func, ast.Name) and n.func.id == 'len' and len(n.args) == 1 and isinstance(n.args[0], ast.Name) and 'len' in env:
        return env['len']
    if isinstance(n, ast.BinOp) and isinstance(n.op, (ast.Add, ast.Sub)):
        return f'({zexpr(n.left, env)} {"+" if isinstance(n.op, ast.Add) else "-"} {zexpr(n.right, env)})'
    raise Unsupported('integer expression ' + ast.dump(n))


def loop(fn, arr, accum):
    """the `for a in it:` loop: returns (cond, neg_branch, pos_branch) with branch = (rounding, slice (lo, hi), start', stop')"""
    body = stmts(fn)
    lp = [s for s in body if isinstance(s, ast.For)]
    if len(lp) != 1:
        raise Unsupported(fn.name + ': expected one for loop')
    lp = lp[0]
    SEEN.add(id(lp))
    if not (isinstance(lp.target, ast.Name) and is_src(lp.iter, 'it') and not lp.orelse):
        raise Unsupported(fn.name + ': loop header')
    a = lp.target.id
    if len(lp.body) != 2 or not isinstance(lp.body[0], ast.If) or not is_src(lp.body[1], f'{arr}[ix] = 0'):
        raise Unsupported(fn.name + ': loop body')
    iff = lp.body[0]
    if not is_src(iff.test, f'{a} < 0'):
        raise Unsupported(fn.name + ': loop condition ' + ast.dump(iff.test))

    def branch(bl):
        want = 3 if accum else 2
        if len(bl) != want:
            raise Unsupported(fn.name + ': branch length')
        rnd = 'Qfloor' if is_src(bl[0], f'{a} = int(np.floor({a}))') else 'Qceiling' if is_src(bl[0], f'{a} = int(np.ceil({a}))') else None
        if rnd is None:
            raise Unsupported(fn.name + ': rounding ' + ast.dump(bl[0]))
        sl = ('(Some r, None)' if is_src(bl[1], f'ix = (np.s_[{a}:],) + it.multi_index') else
              '(None, Some r)' if is_src(bl[1], f'ix = (np.s_[:{a}],) + it.multi_index') else None)
        if sl is None:
            raise Unsupported(fn.name + ': zero-fill index ' + ast.dump(bl[1]))
        ns, np_ = 'start', 'stop'
        if accum:
            st = bl[2]
            if not (isinstance(st, ast.Assign) and len(st.targets) == 1 and isinstance(st.targets[0], ast.Name) and st.targets[0].id in ('start', 'stop')):
                raise Unsupported(fn.name + ': accumulation ' + ast.dump(st))
            v = zexpr(st.value, {'start': 'start', 'stop': 'stop', a: 'r'})
            if st.targets[0].id == 'start':
                ns = v
            else:
                np_ = v
        return rnd, sl, ns, np_
    return branch(iff.body), branch(iff.orelse)


def render(name, neg, pos):
    def br(b):
        rnd, sl, ns, np_ = b
        return f'let r := {rnd} a in (({ns}, {np_}), {sl})'
    return (f'Definition {name} (st : Z * Z) (a : Q) : (Z * Z) * (option Z * option Z) :=\n'
            f'  let start := fst st in let stop := snd st in\n'
            f'  if negb (Qle_bool 0 a) then {br(neg)}\n  else {br(pos)}.')


def generate(repo='/repo'):
    src = pathlib.Path(repo, 'pulsarbat', 'transforms', 'transforms.py').read_text()
    tree = ast.parse(src)
    out = ['(* GENERATED by translate/py_shift2coq.py from transforms/transforms.py -- do not edit *)',
           'From Coq Require Import ZArith QArith Qround Bool.', 'Open Scope Z_scope.']
    # ---------------- time_shift
    fn = find_func(tree, 'time_shift')
    a = fn.args
    if [x.arg for x in a.posonlyargs] != ['z'] or [x.arg for x in a.args] != ['shift', 'crop'] or a.vararg or a.kwarg or a.kwonlyargs \
       or not (len(a.defaults) == 1 and is_src(a.defaults[0], 'False')):
        raise Unsupported('signature of time_shift')
    body = stmts(fn)
    w = 'time_shift'
    need(body, 'if isinstance(shift, u.Quantity):\n    shift = (shift * z.sample_rate).to_value(u.one)', w)
    need(body, 'shift = np.array(shift)', w)
    dc = [s for s in body if isinstance(s, ast.If) and is_src(s.test, 'shift.ndim >= z.ndim') and len(s.body) == 1 and isinstance(s.body[0], ast.Raise) and not s.orelse]
    if len(dc) != 1:
        raise Unsupported('time_shift: dimension check')
    SEEN.add(id(dc[0]))
    need(body, 'if np.allclose(shift, 0):\n    return z', w)
    need(body, 'if shift.ndim > 0:\n    ix = (slice(None),) * shift.ndim + (None,) * (z.ndim - shift.ndim - 1)\n    shift = shift[ix]', w)
    need(body, 'f_ix = tuple(slice(None) if j == 0 else None for j in range(z.ndim))', w)
    need(body, 'if isinstance(z.data, da.Array):\n    f = da.fft.fftfreq(len(z), 1, chunks=(-1,))[f_ix]\nelse:\n    f = np.fft.fftfreq(len(z), 1)[f_ix]', w)
    sign = None
    for s in body:
        if is_src(s, 'ph = np.exp(-2j * np.pi * shift * f).astype(np.complex64)'):
            sign = -1
            SEEN.add(id(s))
        if is_src(s, 'ph = np.exp(2j * np.pi * shift * f).astype(np.complex64)'):
            sign = 1
            SEEN.add(id(s))
    if sign is None:
        raise Unsupported('time_shift: phase ramp')
    out.append(f'Definition gen_tshift_sign : Z := ({sign}).')
    need(body, 'shifted = pb.fft.ifft(pb.fft.fft(z.data, axis=0) * ph, axis=0)', w)
    need(body, 'shifted = shifted if np.iscomplexobj(z.data) else shifted.real', w)
    need(body, 'it = np.nditer(np.broadcast_to(shift, z.sample_shape), flags=["multi_index"])', w)
    init = [s for s in body if isinstance(s, ast.Assign) and isinstance(s.targets[0], ast.Tuple) and [ast.unparse(e) for e in s.targets[0].elts] == ['start', 'stop']]
    if len(init) != 1 or not (isinstance(init[0].value, ast.Tuple) and len(init[0].value.elts) == 2):
        raise Unsupported('time_shift: start, stop initialisation')
    SEEN.add(id(init[0]))
    i0, i1 = [zexpr(e, {}) for e in init[0].value.elts]
    out.append(f'Definition gen_tshift_init : Z * Z := ({i0}, {i1}).')
    neg, pos = loop(fn, 'shifted', True)
    out.append(render('gen_tshift_step', neg, pos))
    need(body, 'x = type(z).like(z, shifted)', w)
    crop = [s for s in body if isinstance(s, ast.If) and is_src(s.test, 'crop')]
    if len(crop) != 1 or len(crop[0].body) != 1 or crop[0].orelse:
        raise Unsupported('time_shift: crop')
    SEEN.add(id(crop[0]))
    cs = crop[0].body[0]
    if not (isinstance(cs, ast.Assign) and isinstance(cs.targets[0], ast.Name) and cs.targets[0].id == 'x' and isinstance(cs.value, ast.Subscript) and is_src(cs.value.value, 'x')
            and isinstance(cs.value.slice, ast.Slice) and cs.value.slice.step is None and cs.value.slice.lower is not None and cs.value.slice.upper is not None):
        raise Unsupported('time_shift: crop statement')
    env = {'start': 'start', 'stop': 'stop', 'len': 'N'}
    out.append(f'Definition gen_tshift_crop (start stop N : Z) : option Z * option Z := '
               f'(Some {zexpr(cs.value.slice.lower, env)}, Some {zexpr(cs.value.slice.upper, env)}).')
    if not is_src(body[-1], 'return x'):
        raise Unsupported('time_shift: return')
    SEEN.add(id(body[-1]))
    all_accounted(body, 'time_shift')
    # ---------------- freq_shift
    fn = find_func(tree, 'freq_shift')
    body = stmts(fn)
    w = 'freq_shift'
    need(body, 'if shift.isscalar:\n    shift = shift[None]', w)
    dc = [s for s in body if isinstance(s, ast.If) and is_src(s.test, 'shift.ndim >= z.ndim') and len(s.body) == 1 and isinstance(s.body[0], ast.Raise) and not s.orelse]
    if len(dc) != 1:
        raise Unsupported('freq_shift: dimension check')
    SEEN.add(id(dc[0]))
    need(body, 'if not isinstance(z, pb.BasebandSignal):\n    raise TypeError("Signal must be a BasebandSignal object.")', w)
    need(body, 'try:\n    shift = shift.to(u.Hz)\nexcept Exception:\n    raise ValueError("shift must be a Quantity with units of frequency.")', w)
    need(body, 'ix = (slice(None),) * shift.ndim + (None,) * (z.ndim - shift.ndim - 1)', w)
    need(body, 'ft = (shift[ix] * z.dt).to_value(u.one)', w)
    need(body, 'if isinstance(z.data, da.Array):\n    n = da.arange(len(z), chunks=(-1,))\nelse:\n    n = np.arange(len(z))', w)
    need(body, 'ix = tuple(slice(None) if j == 0 else None for j in range(z.ndim))', w)
    sign = None
    for s in body:
        if is_src(s, 'ph = np.exp(2j * np.pi * ft * n[ix]).astype(z.dtype)'):
            sign = 1
            SEEN.add(id(s))
        if is_src(s, 'ph = np.exp(-2j * np.pi * ft * n[ix]).astype(z.dtype)'):
            sign = -1
            SEEN.add(id(s))
    if sign is None:
        raise Unsupported('freq_shift: phase ramp')
    out.append(f'Definition gen_fshift_sign : Z := ({sign}).')
    need(body, 'x = np.fft.fftshift(pb.fft.fft(z.data * ph, axis=0), axes=(0,))', w)
    # the loop runs over the shift in BINS: ft * len(x)
    need(body, 'it = np.nditer(np.broadcast_to(ft * len(x), z.sample_shape), flags=["multi_index"])', w)
    out.append('(* element the loop of freq_shift sees: shift * dt * N  (bins) *)')
    out.append('Definition gen_fshift_elem (shift_hz dt : Q) (N : Z) : Q := (shift_hz * dt * inject_Z N)%Q.')
    neg, pos = loop(fn, 'x', False)
    out.append(render('gen_fshift_step', neg, pos))
    if not is_src(body[-1], 'return type(z).like(z, pb.fft.ifft(np.fft.ifftshift(x, axes=(0,)), axis=0))'):
        raise Unsupported('freq_shift: return')
    SEEN.add(id(body[-1]))
    all_accounted(body, 'freq_shift')
    return '\n'.join(out) + '\n'


# ---------------------------------------------------------------------------------------------------------------------------------
# snippet (C12)
def qexpr(n, env):
    """rational expression over t, i (integer), n (integer), the start time and dt"""
    if isinstance(n, ast.Name) and n.id in env:
        return env[n.id]
    if isinstance(n, ast.Attribute) and ast.unparse(n) in env:
        return env[ast.unparse(n)]
    if isinstance(n, ast.Constant) and isinstance(n.value, int) and not isinstance(n.value, bool):
        return f'inject_Z ({n.value})'
    if isinstance(n, ast.BinOp) and isinstance(n.op, (ast.Add, ast.Sub, ast.Mult)):
        op = {ast.Add: '+', ast.Sub: '-', ast.Mult: '*'}[type(n.op)]
        return f'({qexpr(n.left, env)} {op} {qexpr(n.right, env)})'
    raise Unsupported('rational expression ' + ast.dump(n))


def qcond(n, env):
    if isinstance(n, ast.BoolOp) and isinstance(n.op, ast.Or):
        return '(' + ' || '.join(qcond(v, env) for v in n.values) + ')'
    if isinstance(n, ast.Compare) and len(n.ops) == 1 and isinstance(n.ops[0], ast.Lt):
        a, b = n.left, n.comparators[0]
        key = ast.unparse(b)
        bt = env[key] if key in env else qexpr(b, env)     # `t + n` is a float sum: the caller supplies its value (tn)
        ka = ast.unparse(a)
        at = env[ka] if ka in env else qexpr(a, env)
        return f'negb (Qle_bool {bt} {at})'                # a < b
    raise Unsupported('condition ' + ast.dump(n))


def generate_snippet(repo='/repo'):
    src = pathlib.Path(repo, 'pulsarbat', 'transforms', 'transforms.py').read_text()
    fn = find_func(ast.parse(src), 'snippet')
    a = fn.args
    if [x.arg for x in a.posonlyargs] != ['z'] or [x.arg for x in a.args] != ['t', 'n'] or a.vararg or a.kwarg or a.kwonlyargs or a.defaults:
        raise Unsupported('signature of snippet')
    body = stmts(fn)
    if len(body) != 6:
        raise Unsupported('snippet: expected six statements')
    out = ['(* GENERATED by translate/py_shift2coq.py from transforms.snippet -- do not edit *)',
           'From Coq Require Import ZArith QArith Qround Bool.', 'Open Scope Z_scope.']
    # 1. n = operator.index(n) must be >= 0
    s0 = body[0]
    if not (isinstance(s0, ast.If) and not s0.orelse and len(s0.body) == 1 and isinstance(s0.body[0], ast.Raise)
            and isinstance(s0.test, ast.Compare) and len(s0.test.ops) == 1 and is_src(s0.test.left, '(n := operator.index(n))')
            and isinstance(s0.test.comparators[0], ast.Constant) and isinstance(s0.test.comparators[0].value, int)):
        raise Unsupported('snippet: length check')
    c = s0.test.comparators[0].value
    op = {ast.Lt: f'(n <? {c})', ast.LtE: f'(n <=? {c})'}.get(type(s0.test.ops[0]))
    if op is None:
        raise Unsupported('snippet: length comparison')
    out.append(f'Definition gen_snip_bad_n (n : Z) : bool := {op}.')
    # 2, 3. normalisation of t to samples (pinned)
    if not is_src(body[1], 'if isinstance(t, Time):\n    if z.start_time is None:\n        raise ValueError("t is a Time object, but signal has no start time.")\n    t = (t - z.start_time).to(u.s)'):
        raise Unsupported('snippet: Time normalisation')
    if not is_src(body[2], 'if isinstance(t, u.Quantity):\n    t = (t * z.sample_rate).to_value(u.one)'):
        raise Unsupported('snippet: Quantity normalisation')
    # 4. out of bounds
    s3 = body[3]
    if not (isinstance(s3, ast.If) and not s3.orelse and len(s3.body) == 1 and isinstance(s3.body[0], ast.Raise)):
        raise Unsupported('snippet: bounds check')
    env = {'t': 't', 't + n': 'tn', 'len(z)': '(inject_Z len)', '0': '0'}
    out.append('(* tn: the double the code obtains for t + n *)')
    out.append(f'Definition gen_snip_oob (t tn : Q) (len : Z) : bool := {qcond(s3.test, env)}.')
    # 5. fractional start
    s4 = body[4]
    if not (isinstance(s4, ast.If) and not s4.orelse and isinstance(s4.test, ast.Compare) and len(s4.test.ops) == 1
            and isinstance(s4.test.ops[0], ast.Lt) and is_src(s4.test.left, '(i := int(t))') and is_src(s4.test.comparators[0], 't')):
        raise Unsupported('snippet: fractional-start test')
    out.append('(* int(t) of a non-negative t *)')
    out.append('Definition gen_snip_i (t : Q) : Z := Qfloor t.')
    out.append('Definition gen_snip_fractional (i : Z) (t : Q) : bool := negb (Qle_bool t (inject_Z i)).')
    fb = s4.body
    if len(fb) != 4:
        raise Unsupported('snippet: fractional branch')
    if not (isinstance(fb[0], ast.Assign) and is_src(fb[0].targets[0], 'shift') is False and isinstance(fb[0].targets[0], ast.Name) and fb[0].targets[0].id == 'shift'):
        raise Unsupported('snippet: shift')
    env2 = {'i': 'inject_Z i', 't': 't'}
    out.append(f'Definition gen_snip_shift (i : Z) (t : Q) : Q := {qexpr(fb[0].value, env2)}%Q.')
    st = fb[1]
    if not (isinstance(st, ast.If) and is_src(st.test, 'z.start_time is None') and len(st.body) == 1 and is_src(st.body[0], 'new_start = None')
            and len(st.orelse) == 1 and isinstance(st.orelse[0], ast.Assign) and isinstance(st.orelse[0].targets[0], ast.Name)
            and st.orelse[0].targets[0].id == 'new_start'):
        raise Unsupported('snippet: new start')
    env3 = {'z.start_time': 'a', 'shift': 'shift', 'z.dt': 'dt'}
    out.append(f'Definition gen_snip_new_start (t0 : option Q) (shift dt : Q) : option Q := '
               f'match t0 with None => None | Some a => Some {qexpr(st.orelse[0].value, env3)}%Q end.')
    if not is_src(fb[2], 'shifted = pb.time_shift(z, shift, crop=True).data') or not is_src(fb[3], 'z = type(z).like(z, shifted, start_time=new_start)'):
        raise Unsupported('snippet: shifted signal')
    # 6. return z[i:i + n]
    r = body[5]
    if not (isinstance(r, ast.Return) and isinstance(r.value, ast.Subscript) and is_src(r.value.value, 'z') and isinstance(r.value.slice, ast.Slice)
            and r.value.slice.step is None and r.value.slice.lower is not None and r.value.slice.upper is not None):
        raise Unsupported('snippet: return')
    envz = {'i': 'i', 'n': 'n'}
    out.append(f'Definition gen_snip_slice (i n : Z) : option Z * option Z := (Some {zexpr(r.value.slice.lower, envz)}, Some {zexpr(r.value.slice.upper, envz)}).')
    return '\n'.join(out) + '\n'


def generate_fast_len(repo='/repo'):
    """transforms.fast_len: the crop is a plain time slice z[:prev_fast_len(len(z))] of the signal itself"""
    src = pathlib.Path(repo, 'pulsarbat', 'transforms', 'transforms.py').read_text()
    fn = find_func(ast.parse(src), 'fast_len')
    a = fn.args
    if [x.arg for x in a.posonlyargs] != ['z'] or a.args or a.vararg or a.kwarg or a.kwonlyargs:
        raise Unsupported('signature of fast_len')
    body = stmts(fn)
    env = {}
    for st in body[:-1]:
        if not (isinstance(st, ast.Assign) and len(st.targets) == 1 and isinstance(st.targets[0], ast.Name)):
            raise Unsupported('fast_len: statement ' + ast.unparse(st))
        v = st.value
        if is_src(v, 'len(z)'):
            env[st.targets[0].id] = 'N'
        elif isinstance(v, ast.Call) and ast.unparse(v.func) in ('pb.utils.prev_fast_len', 'pb.utils.next_fast_len') and len(v.args) == 1 and not v.keywords \
                and (is_src(v.args[0], 'len(z)') or (isinstance(v.args[0], ast.Name) and env.get(v.args[0].id) == 'N')):
            env[st.targets[0].id] = ('prev' if 'prev' in ast.unparse(v.func) else 'next') + '_fast_len N'
        else:
            raise Unsupported('fast_len: expression ' + ast.unparse(v))
    r = body[-1]
    if not (isinstance(r, ast.Return) and isinstance(r.value, ast.Subscript) and is_src(r.value.value, 'z') and isinstance(r.value.slice, ast.Slice)
            and r.value.slice.step is None):
        raise Unsupported('fast_len: the result is not a time slice of z: ' + ast.unparse(r))

    def bound(n):
        if n is None:
            return 'Some None'
        if isinstance(n, ast.Name) and n.id in env and env[n.id] != 'N':
            return f'match {env[n.id]} with Some k => Some (Some k) | None => None end'
        raise Unsupported('fast_len: slice bound ' + ast.unparse(n))
    out = ['(* GENERATED by translate/py_shift2coq.py from transforms.fast_len -- do not edit *)',
           'From Coq Require Import ZArith.', 'From PB Require Import Model.FastLen.', 'Open Scope Z_scope.',
           '(* the slice bounds of the crop (None = the fuelled integer function ran out of fuel) *)',
           f'Definition gen_fast_len_lo (N : Z) : option (option Z) := {bound(r.value.slice.lower)}.',
           f'Definition gen_fast_len_hi (N : Z) : option (option Z) := {bound(r.value.slice.upper)}.']
    return '\n'.join(out) + '\n'


if __name__ == '__main__':
    repo = sys.argv[1] if len(sys.argv) > 1 else '/repo'
    sys.stdout.write(generate(repo))
    sys.stdout.write(generate_snippet(repo))
    sys.stdout.write(generate_fast_len(repo))
