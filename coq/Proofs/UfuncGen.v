(* Proofs/UfuncGen.v -- C17: the refusal test, the reference signal and the wrapping rule of Model/Ufunc.array_ufunc ARE those translated
   from Signal.__array_ufunc__ (Gen/GenUfunc.v, regenerated on every run by T10; the other statements of the method are pinned). *)
From Coq Require Import List Bool Arith.
From PB Require Import Model.Ufunc Gen.GenUfunc.
Import ListNotations.

Lemma gen_wrap_is_wrap A ref a o : gen_wrap A ref a o = wrap A ref a o.
Proof. destruct o; reflexivity. Qed.

Theorem array_ufunc_generated (A : Type) (ufunc : list A -> list A) (m : method) (is_matmul : bool)
        (inputs : list (operand A)) (out : list (option (operand A))) :
  array_ufunc A ufunc m is_matmul inputs out =
  if gen_refused (match m with MCall => true | _ => false end) is_matmul then NotImplemented A
  else match first_sig A (inputs ++ flat_map (fun o => match o with Some x => [x] | None => [] end) out) with
       | None => NotImplemented A          (* no signal involved: the method is never reached *)
       | Some self =>
           let ref := gen_ref A inputs self in
           Results A (map (fun p => gen_wrap A ref (fst p) (snd p)) (combine (ufunc (map (unwrap A) inputs)) out))
       end.
Proof.
  destruct m; reflexivity.
Qed.
