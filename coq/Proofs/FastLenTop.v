(* Proofs/FastLenTop.v -- closes the C18 statement on the generated code:
   * smooth (the 2^i 3^j 5^c 7^d form used by the loop proofs) <-> "positive and no prime factor > 7";
   * the fuel chosen by Model/FastLen.v always suffices (termination), N = 0 included. *)
From Coq Require Import ZArith Lia List Bool Znumtheory.
From PB Require Import Gen.GenUtils Proofs.FastLenA Proofs.FastLenB Proofs.FastLenPrev Model.FastLen.
Open Scope Z_scope.

Definition smooth7 (m : Z) : Prop := 0 < m /\ forall p, prime p -> (p | m) -> p <= 7.

Lemma prime_div_pow p q n : prime p -> prime q -> 0 <= n -> (p | q ^ n) -> p = q.
Proof.
  intros Hp Hq Hn. pattern n. apply natlike_ind; [| |exact Hn].
  - intros H. simpl in H. destruct Hp as [Hp1 _].
    apply Z.divide_1_r_nonneg in H; lia.
  - intros k Hk IH H. rewrite Z.pow_succ_r in H by lia.
    apply prime_mult in H; [|exact Hp]. destruct H as [H|H]; [|auto].
    apply prime_div_prime; assumption.
Qed.

Lemma prime_5 : prime 5.
Proof.
  apply prime_alt; split; [lia|]. intros n Hn Hd. apply Z.mod_divide in Hd; [|lia].
  assert (C : n = 2 \/ n = 3 \/ n = 4) by lia. destruct C as [-> | [-> | ->]]; discriminate Hd.
Qed.
Lemma prime_7 : prime 7.
Proof.
  apply prime_alt; split; [lia|]. intros n Hn Hd. apply Z.mod_divide in Hd; [|lia].
  assert (C : n = 2 \/ n = 3 \/ n = 4 \/ n = 5 \/ n = 6) by lia.
  destruct C as [->|[->|[-> | [-> | ->]]]]; discriminate Hd.
Qed.

Lemma smooth_to_primes m : smooth m -> smooth7 m.
Proof.
  intros Hs. split; [apply smooth_pos; exact Hs|].
  destruct Hs as (i & j & c & d & ->). intros p Hp Hd.
  unfold cand, val, F75 in Hd.
  assert (P2 := prime_2). assert (P3 := prime_3).
  assert (P5 := prime_5). assert (P7 := prime_7).
  apply prime_mult in Hd; [|exact Hp]. destruct Hd as [Hd|Hd].
  - apply prime_mult in Hd; [|exact Hp]. destruct Hd as [Hd|Hd].
    + apply prime_mult in Hd; [|exact Hp]. destruct Hd as [Hd|Hd].
      * apply prime_div_pow in Hd; auto; lia.
      * apply prime_div_pow in Hd; auto; lia.
    + apply prime_div_pow in Hd; auto; lia.
  - apply prime_div_pow in Hd; auto; lia.
Qed.

Lemma exists_prime_divisor : forall m, 1 < m -> exists p, prime p /\ (p | m).
Proof.
  intros m Hm. assert (H0 : 0 <= m) by lia. revert Hm. pattern m.
  apply Z_lt_induction; [|exact H0]. clear m H0. intros m IH Hm.
  destruct (prime_dec m) as [Hp|Hnp].
  - exists m. split; [exact Hp|apply Z.divide_refl].
  - destruct (not_prime_divide m Hm Hnp) as (n & Hn & Hd).
    destruct (IH n ltac:(lia) ltac:(lia)) as (p & Hp & Hpn).
    exists p. split; [exact Hp|]. eapply Z.divide_trans; eassumption.
Qed.

Lemma small_prime p : prime p -> p <= 7 -> p = 2 \/ p = 3 \/ p = 5 \/ p = 7.
Proof.
  intros Hp H7. pose proof (prime_ge_2 p Hp).
  assert (C : p = 2 \/ p = 3 \/ p = 4 \/ p = 5 \/ p = 6 \/ p = 7) by lia.
  destruct C as [C|[C|[C|[C|[C|C]]]]]; auto; subst p; exfalso.
  - assert (D : (2 | 4)) by (exists 2; lia). destruct (prime_divisors 4 Hp 2 D) as [E|[E|[E|E]]]; lia.
  - assert (D : (2 | 6)) by (exists 3; lia). destruct (prime_divisors 6 Hp 2 D) as [E|[E|[E|E]]]; lia.
Qed.

Lemma smooth_mul p m : (p = 2 \/ p = 3 \/ p = 5 \/ p = 7) -> smooth m -> smooth (p * m).
Proof.
  intros Hp (i & j & c & d & ->). destruct Hp as [->|[-> | [-> | ->]]].
  - exists (S i), j, c, d. unfold cand. rewrite val_S_i. reflexivity.
  - exists i, (S j), c, d. unfold cand. rewrite val_S_j. reflexivity.
  - exists i, j, (S c), d. unfold cand, val. rewrite F75_S_c. ring.
  - exists i, j, c, (S d). unfold cand, val. rewrite F75_S_d. ring.
Qed.

Lemma primes_to_smooth : forall m, smooth7 m -> smooth m.
Proof.
  intros m [Hpos Hall]. assert (H0 : 0 <= m) by lia. revert Hpos Hall. pattern m.
  apply Z_lt_induction; [|exact H0]. clear m H0. intros m IH Hpos Hall.
  destruct (Z.eq_dec m 1) as [->|Hne].
  - apply smooth_small; lia.
  - destruct (exists_prime_divisor m ltac:(lia)) as (p & Hp & [k Hk]).
    pose proof (prime_ge_2 p Hp) as Hp2.
    assert (Hsp := small_prime p Hp (Hall p Hp (ex_intro _ k Hk))).
    assert (Hk1 : 0 < k) by nia.
    assert (Hk2 : k < m) by nia.
    replace m with (p * k) by lia. apply smooth_mul; [exact Hsp|].
    apply IH; [lia|exact Hk1|].
    intros q Hq Hqk. apply Hall; [exact Hq|]. subst m. apply Z.divide_mul_l. exact Hqk.
Qed.

Theorem smooth_iff m : smooth m <-> smooth7 m.
Proof. split; [apply smooth_to_primes|apply primes_to_smooth]. Qed.

(* ---- termination / fuel ---- *)
Lemma fuel_next N : 1 <= N -> (2 * Z.to_nat (Z.log2_up N) + 4 <= fuel_of N)%nat.
Proof. intros H. unfold fuel_of. pose proof (Z.log2_up_nonneg N). lia. Qed.
Lemma fuel_prev N : 1 <= N -> (2 * Z.to_nat (Z.log2 N + 1) + 4 <= fuel_of N)%nat.
Proof. intros H. unfold fuel_of. pose proof (Z.le_log2_log2_up N). pose proof (Z.log2_nonneg N). lia. Qed.

Definition next_spec7 (N r : Z) : Prop := smooth7 r /\ N <= r /\ forall m, smooth7 m -> N <= m -> r <= m.
Definition prev_spec7 (N r : Z) : Prop := smooth7 r /\ r <= N /\ forall m, smooth7 m -> m <= N -> m <= r.

Theorem next_fast_len_total N : 0 <= N ->
  exists r, next_fast_len N = Some r /\ (N = 0 -> r = 0) /\ (1 <= N -> next_spec7 N r).
Proof.
  intros HN. destruct (Z.eq_dec N 0) as [->|Hne].
  - exists 0. split; [reflexivity|]. split; [reflexivity|lia].
  - destruct (next_fast_len_correct N (fuel_of N) ltac:(lia) (fuel_next N ltac:(lia))) as (r & Hr & Hs & Hle & Hmin).
    exists r. unfold next_fast_len. rewrite Hr. split; [reflexivity|]. split; [lia|]. intros _.
    split; [apply smooth_iff; exact Hs|]. split; [exact Hle|].
    intros m Hm. apply Hmin. apply smooth_iff. exact Hm.
Qed.

Theorem prev_fast_len_total N : 0 <= N ->
  exists r, prev_fast_len N = Some r /\ (N = 0 -> r = 0) /\ (1 <= N -> prev_spec7 N r).
Proof.
  intros HN. destruct (Z.eq_dec N 0) as [->|Hne].
  - exists 0. split; [reflexivity|]. split; [reflexivity|lia].
  - destruct (prev_fast_len_correct N (fuel_of N) ltac:(lia) (fuel_prev N ltac:(lia))) as (r & Hr & Hs & Hle & Hmax).
    exists r. unfold prev_fast_len. rewrite Hr. split; [reflexivity|]. split; [lia|]. intros _.
    split; [apply smooth_iff; exact Hs|]. split; [exact Hle|].
    intros m Hm. apply Hmax. apply smooth_iff. exact Hm.
Qed.

(* fast_len keeps a prefix: 0 <= kept <= len, so retained sample k is input sample k (k < kept) *)
Theorem fast_len_prefix len : 0 <= len -> exists k, fast_len_keep len = Some k /\ 0 <= k <= len /\ (1 <= len -> 1 <= k).
Proof.
  intros H. destruct (prev_fast_len_total len H) as (r & Hr & H0 & H1). exists r. split; [exact Hr|].
  destruct (Z.eq_dec len 0) as [->|Hne]; [rewrite (H0 eq_refl); lia|].
  destruct (H1 ltac:(lia)) as ((Hpos & _) & Hle & _). lia.
Qed.

(* non-vacuity: concrete instances *)
Example next_1000 : next_fast_len 1001 = Some 1008. Proof. vm_compute. reflexivity. Qed.
Example prev_1000 : prev_fast_len 1001 = Some 1000. Proof. vm_compute. reflexivity. Qed.
Example next_big : next_fast_len (2^61 + 1) = Some 2305920400000000000. Proof. vm_compute. reflexivity. Qed.
