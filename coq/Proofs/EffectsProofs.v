(* Proofs/EffectsProofs.v -- soundness of the C14 analyser: check = Some _ implies that in every execution (every
   resolution of the view-or-copy choices, every branch, any number of loop iterations) and in every PREFIX of every
   execution (the call raised there) no input buffer is written. *)
From Coq Require Import List Bool Arith Lia.
From PB Require Import Model.Effects.
Import ListNotations.

(* ---------- soundness ---------- *)
Definition le (r : env) (t : taint) : Prop := forall x, r x <> [] -> mem x t = true.

Lemma mem_In x t : mem x t = true <-> In x t.
Proof. unfold mem. rewrite existsb_exists. split.
  - intros (y & Hy & E). apply Nat.eqb_eq in E. subst. exact Hy.
  - intros H. exists x. split; [exact H|apply Nat.eqb_refl]. Qed.
Lemma subset_spec a b : subset a b = true -> forall x, mem x a = true -> mem x b = true.
Proof. unfold subset. rewrite forallb_forall. intros H x Hx. apply H. apply mem_In. exact Hx. Qed.
Lemma mem_app x a b : mem x (a ++ b) = mem x a || mem x b.
Proof. unfold mem. apply existsb_app. Qed.
Lemma le_mono r a b : le r a -> (forall x, mem x a = true -> mem x b = true) -> le r b.
Proof. intros H S x Hx. apply S, H, Hx. Qed.

Lemma eval_sound r t : le r t ->
  (forall e v, eval r e v -> aexpr t e = false -> v = []) /\
  (forall es vs, evals r es vs -> existsb (aexpr t) es = false -> concat vs = []).
Proof.
  intros Hle. apply eval_evals_ind.
  - intros x H. simpl in H. destruct (r x) eqn:E; [reflexivity|].
    assert (mem x t = true) by (apply Hle; rewrite E; discriminate). congruence.
  - intros es vs v _ IH Hincl H. simpl in H. rewrite (IH H) in Hincl.
    destruct v as [|a v]; [reflexivity|]. exfalso. apply (Hincl a). left. reflexivity.
  - reflexivity.
  - reflexivity.
  - intros e es v vs _ IHe _ IHes H. simpl in H. apply orb_false_iff in H. destruct H as [H1 H2].
    simpl. rewrite (IHe H1), (IHes H2). reflexivity.
Qed.

Lemma le_upd r t x e v : le r t -> eval r e v ->
  le (upd r x v) (if aexpr t e then x :: t else remove x t).
Proof.
  intros Hle Hev y Hy. unfold upd in Hy. destruct (Nat.eqb y x) eqn:E.
  - apply Nat.eqb_eq in E. subst y. destruct (aexpr t e) eqn:A.
    + simpl. rewrite Nat.eqb_refl. reflexivity.
    + exfalso. apply Hy. apply (proj1 (eval_sound r t Hle) e v Hev A).
  - specialize (Hle y Hy). destruct (aexpr t e).
    + simpl. rewrite E. exact Hle.
    + apply mem_In. unfold remove. apply filter_In. split; [apply mem_In; exact Hle|]. rewrite E. reflexivity.
Qed.

Lemma loopfix_inv body fuel : forall t t_inv, loopfix body fuel t = Some t_inv ->
  (forall x, mem x t = true -> mem x t_inv = true) /\
  exists t', body t_inv = Some t' /\ subset t' t_inv = true.
Proof.
  induction fuel as [|fuel IH]; intros t t_inv H; simpl in H.
  - destruct (body t) as [t'|] eqn:B; [|discriminate]. destruct (subset t' t) eqn:S; [|discriminate].
    inversion H; subst. split; [auto|]. exists t'. auto.
  - destruct (body t) as [t'|] eqn:B; [|discriminate]. destruct (subset t' t) eqn:S.
    + inversion H; subst. split; [auto|]. exists t'. auto.
    + destruct (IH _ _ H) as [M E]. split; [|exact E].
      intros x Hx. apply M. rewrite mem_app, Hx. apply orb_true_r.
Qed.

Theorem check_full_sound fuel : forall s st st', full s st st' ->
  forall t t', check fuel s t = Some t' -> le (fst st) t ->
  snd st' = snd st /\ le (fst st') t'.
Proof.
  intros s st st' H. induction H; intros t t' C Hle; simpl in *.
  - inversion C; subst. auto.
  - inversion C; subst. split; [reflexivity|]. apply le_upd; assumption.
  - destruct (aexpr t e) eqn:A; [discriminate|]. inversion C; subst.
    rewrite (proj1 (eval_sound r t' Hle) e v H A). auto.
  - destruct (existsb (aexpr t) es) eqn:A; [discriminate|]. inversion C; subst.
    pose proof (proj2 (eval_sound r t' Hle) es vs H A) as Hc. rewrite Hc in H0.
    destruct v as [|a v]; [auto|]. exfalso. apply (H0 a). left. reflexivity.
  - destruct (check fuel a t) as [t1|] eqn:Ca; [|discriminate].
    destruct (IHfull1 _ _ Ca Hle) as [W1 L1]. destruct (IHfull2 _ _ C L1) as [W2 L2].
    split; [congruence|exact L2].
  - destruct (check fuel a t) as [t1|] eqn:Ca; [|discriminate]. destruct (check fuel b t) as [t2|]; [|discriminate].
    inversion C; subst. destruct (IHfull _ _ Ca Hle) as [W L]. split; [exact W|].
    eapply le_mono; [exact L|]. intros x Hx. rewrite mem_app, Hx. reflexivity.
  - destruct (check fuel a t) as [t1|]; [|discriminate]. destruct (check fuel b t) as [t2|] eqn:Cb; [|discriminate].
    inversion C; subst. destruct (IHfull _ _ Cb Hle) as [W L]. split; [exact W|].
    eapply le_mono; [exact L|]. intros x Hx. rewrite mem_app, Hx. apply orb_true_r.
  - destruct (loopfix_inv _ _ _ _ C) as [M _]. split; [reflexivity|]. eapply le_mono; [exact Hle|exact M].
  - destruct (loopfix_inv _ _ _ _ C) as [M (t1 & B & S)].
    assert (Hinv : le (fst s1) t') by (eapply le_mono; [exact Hle|exact M]).
    destruct (IHfull1 _ _ B Hinv) as [W1 L1].
    assert (L1' : le (fst s2) t') by (eapply le_mono; [exact L1|apply subset_spec; exact S]).
    (* the invariant t' is itself accepted as a loop invariant: re-run the loop check from t' *)
    assert (C' : check fuel (SLoop a) t' = Some t').
    { simpl. destruct fuel; simpl; rewrite B, S; reflexivity. }
    destruct (IHfull2 _ _ C' L1') as [W2 L2]. split; [congruence|exact L2].
Qed.

Theorem check_part_sound fuel : forall s st st', part s st st' ->
  forall t t', check fuel s t = Some t' -> le (fst st) t -> snd st' = snd st.
Proof.
  intros s st st' H. induction H; intros t t' C Hle.
  - reflexivity.
  - eapply check_full_sound; eauto.
  - simpl in C. destruct (check fuel a t) as [t1|] eqn:Ca; [|discriminate]. eapply IHpart; eauto.
  - simpl in C. destruct (check fuel a t) as [t1|] eqn:Ca; [|discriminate].
    destruct (check_full_sound fuel _ _ _ H _ _ Ca Hle) as [W L].
    rewrite (IHpart _ _ C L). exact W.
  - simpl in C. destruct (check fuel a t) as [t1|] eqn:Ca; [|discriminate]. destruct (check fuel b t); [|discriminate].
    eapply IHpart; eauto.
  - simpl in C. destruct (check fuel a t) as [t1|]; [|discriminate]. destruct (check fuel b t) as [t2|] eqn:Cb; [|discriminate].
    eapply IHpart; eauto.
  - destruct (check_full_sound fuel _ _ _ H _ _ C Hle) as [W L].
    simpl in C. destruct (loopfix_inv _ _ _ _ C) as [M (t1 & B & S)].
    rewrite (IHpart _ _ B L). exact W.
Qed.

(* the property, as used per function: parameters 0..n-1 hold the inputs, nothing else is bound *)
Corollary no_input_written fuel n s t' st' :
  check fuel s (seq 0 n) = Some t' -> part s (init_env n, []) st' -> snd st' = [].
Proof.
  intros C P. eapply (check_part_sound fuel s _ _ P _ _ C).
  intros x Hx. unfold init_env in Hx. simpl in Hx. destruct (x <? n) eqn:E; [|congruence].
  apply Nat.ltb_lt in E. apply mem_In. apply in_seq. lia.
Qed.

Theorem ok_fn_sound p st' : ok_fn p = true -> part (snd p) (init_env (fst p), []) st' -> snd st' = [].
Proof. unfold ok_fn. destruct (check 12 (snd p) (seq 0 (fst p))) as [t'|] eqn:C; [|discriminate].
  intros _ P. eapply no_input_written; eauto. Qed.
Theorem all_ok_sound ps : forallb ok_fn ps = true -> forall p st', In p ps ->
  part (snd p) (init_env (fst p), []) st' -> snd st' = [].
Proof. intros H p st' Hp. rewrite forallb_forall in H. apply ok_fn_sound. apply H. exact Hp. Qed.
