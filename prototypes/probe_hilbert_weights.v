(* probe: the Hilbert weights of real_to_complex pair up to 2 for every N (C19 crux) *)
From Coq Require Import ZArith Lia Bool.
Open Scope bool_scope.
Open Scope Z_scope.

(* utils.real_to_complex:  h = zeros(N); h[0] = 1; h[1 : N//2] = 2; if N > 1: h[N//2] = 2 if N % 2 else 1 *)
Definition h (N k : Z) : Z :=
  if (1 <? N) && (k =? N / 2) then (if N mod 2 =? 0 then 1 else 2)   (* written last, wins *)
  else if (1 <=? k) && (k <? N / 2) then 2
  else if k =? 0 then 1
  else 0.

Theorem weights_pair N k : 1 <= N -> 0 <= k < N -> h N k + h N ((N - k) mod N) = 2.
Proof.
  intros HN Hk. unfold h.
  assert (Hm : (N - k) mod N = if k =? 0 then 0 else N - k).
  { destruct (k =? 0) eqn:E; [apply Z.eqb_eq in E; subst; rewrite Z.sub_0_r; apply Z.mod_same; lia|].
    apply Z.eqb_neq in E. apply Z.mod_small. lia. }
  rewrite Hm. clear Hm.
  pose proof (Z.div_mod N 2 ltac:(lia)) as D. pose proof (Z.mod_pos_bound N 2 ltac:(lia)) as M.
  destruct (k =? 0) eqn:E0; [apply Z.eqb_eq in E0|apply Z.eqb_neq in E0];
  destruct (1 <? N) eqn:E1; [apply Z.ltb_lt in E1| apply Z.ltb_ge in E1|apply Z.ltb_lt in E1| apply Z.ltb_ge in E1];
  destruct (N mod 2 =? 0) eqn:E2; [apply Z.eqb_eq in E2|apply Z.eqb_neq in E2|apply Z.eqb_eq in E2|apply Z.eqb_neq in E2
                                  |apply Z.eqb_eq in E2|apply Z.eqb_neq in E2|apply Z.eqb_eq in E2|apply Z.eqb_neq in E2];
  repeat match goal with
  | |- context [ ?a =? ?b ] => let E := fresh "E" in destruct (a =? b) eqn:E; [apply Z.eqb_eq in E|apply Z.eqb_neq in E]
  | |- context [ ?a <? ?b ] => let E := fresh "E" in destruct (a <? b) eqn:E; [apply Z.ltb_lt in E|apply Z.ltb_ge in E]
  | |- context [ ?a <=? ?b ] => let E := fresh "E" in destruct (a <=? b) eqn:E; [apply Z.leb_le in E|apply Z.leb_gt in E]
  end; cbn [andb]; try lia.
Qed.
(* output length and the decimation/mixing sign rule *)
Lemma out_len N : 0 <= N -> (if N =? 0 then 0 else (N - 1) / 2 + 1) = (N + 1) / 2.
Proof. intros H. destruct (N =? 0) eqn:E; [apply Z.eqb_eq in E; subst; reflexivity|]. apply Z.eqb_neq in E.
  replace (N + 1) with ((N - 1) + 1 * 2) by ring. rewrite Z.div_add by lia. reflexivity. Qed.
Print Assumptions weights_pair.
