(* Proofs/FmodSpec.v -- decoding and encoding doubles (Prim2SF / SF2Prim against their real values), for the exact fmod of
   Model/PhaseDivmod.v. *)
From Coq Require Import ZArith Reals Psatz Floats Bool Lia Uint63.
From Flocq Require Import Core BinarySingleNaN PrimFloat.
From PB Require Import Proofs.TwoSumExact Model.Phase2 Model.PhaseDivmod Proofs.Floor Proofs.DayFrac.
Open Scope R_scope.

Lemma R_of_SF x : R_of x = SF2R radix2 (Prim2SF x).
Proof. unfold R_of. rewrite <- B2SF_Prim2B. symmetry. apply SF2R_B2SF. Qed.

Lemma decode x s m e : Prim2SF x = S754_finite s m e ->
  R_of x = F2R (Float radix2 (cond_Zopp s (Zpos m)) e) /\ (Zpos m < 2 ^ 53)%Z /\ (-1074 <= e <= 971)%Z /\ fin x.
Proof.
  intros H. split; [rewrite R_of_SF, H; reflexivity|].
  pose proof (Prim2SF_valid x) as Vx. rewrite H in Vx. cbn [valid_binary] in Vx.
  unfold bounded in Vx. apply andb_prop in Vx. destruct Vx as [C B].
  apply Zle_bool_imp_le in B. unfold canonical_mantissa in C. apply Zeq_bool_eq in C.
  unfold SpecFloat.fexp, SpecFloat.emin in C. change prec with 53%Z in *. change emax with 1024%Z in *.
  rewrite Zpos_digits2_pos in C.
  assert (Dg : (Zdigits radix2 (Zpos m) <= 53)%Z) by lia.
  split.
  - apply (Zpower_gt_Zdigits radix2 53 (Zpos m)) in Dg. rewrite Z.abs_eq in Dg by lia. exact Dg.
  - split; [lia|]. unfold fin, Prim2B. rewrite is_finite_SF2B. rewrite H. reflexivity.
Qed.

Lemma F2R_format (m : positive) (e : Z) : (Zpos m < 2 ^ 53)%Z -> (-1074 <= e)%Z ->
  generic_format radix2 (FLT_exp (-1074) 53) (F2R (Float radix2 (Zpos m) e)).
Proof.
  intros Hm He. apply generic_format_F2R. intros _. unfold cexp, FLT_exp. rewrite mag_F2R_Zdigits by lia.
  assert (Zdigits radix2 (Zpos m) <= 53)%Z.
  { destruct (Z_lt_le_dec 53 (Zdigits radix2 (Zpos m))) as [A|A]; [|exact A]. exfalso.
    assert (2 ^ 53 <= Z.abs (Zpos m))%Z; [|rewrite Z.abs_eq in *; lia]. change (2 ^ 53)%Z with (radix2 ^ 53)%Z. apply Zpower_le_Zdigits. lia. }
  apply Z.max_lub; lia.
Qed.

Lemma enc_pm (m : positive) : (Zpos m < 2 ^ 53)%Z ->
  B2R (Prim2B (of_uint63 (of_Z (Zpos m)))) = IZR (Zpos m) /\ is_finite (Prim2B (of_uint63 (of_Z (Zpos m)))) = true.
Proof.
  intros Hm. rewrite of_int63_equiv.
  rewrite of_Z_spec. rewrite Z.mod_small by (change wB with (2 ^ 63)%Z; lia).
  assert (E : F2R (Float radix2 (Zpos m) 0) = IZR (Zpos m)) by (unfold F2R; simpl; ring).
  assert (Er : rnd (F2R (Float radix2 (Zpos m) 0)) = IZR (Zpos m)) by (rewrite E; apply rnd_IZR; lia).
  assert (Hb : Rabs (rnd (F2R (Float radix2 (Zpos m) 0))) < bpow radix2 1024).
  { rewrite Er, <- abs_IZR. apply Rlt_le_trans with (IZR (2 ^ 53)); [apply IZR_lt; lia|]. apply Rle_trans with (bpow radix2 53); [simpl; lra|apply bpow_le; lia]. }
  generalize (binary_normalize_correct prec emax Hprec Hmax mode_NE (Zpos m) 0 false). cbv zeta. simpl round_mode.
  rewrite Rlt_bool_true by exact Hb.
  intros (A & B & _). split; [exact (eq_trans A Er)|exact B].
Qed.

Lemma enc_ldexp (pm : PrimFloat.float) (m : positive) (e : Z) : (Zpos m < 2 ^ 53)%Z -> (-1074 <= e <= 971)%Z ->
  B2R (Prim2B pm) = IZR (Zpos m) -> is_finite (Prim2B pm) = true ->
  B2R (Prim2B (Z.ldexp pm e)) = F2R (Float radix2 (Zpos m) e) /\ is_finite (Prim2B (Z.ldexp pm e)) = true.
Proof.
  intros Hm He Epm Fpm. rewrite ldexp_equiv.
  assert (E : IZR (Zpos m) * bpow radix2 e = F2R (Float radix2 (Zpos m) e)) by reflexivity.
  assert (Er : rnd (B2R (Prim2B pm) * bpow radix2 e) = F2R (Float radix2 (Zpos m) e)).
  { rewrite Epm, E. apply round_generic; [apply valid_rnd_N|apply F2R_format; [exact Hm|lia]]. }
  assert (Hb : Rabs (rnd (B2R (Prim2B pm) * bpow radix2 e)) < bpow radix2 1024).
  { rewrite Er, <- E, Rabs_mult, <- abs_IZR, (Rabs_pos_eq (bpow radix2 e)) by apply bpow_ge_0.
    apply Rlt_le_trans with (bpow radix2 53 * bpow radix2 e).
    + apply Rmult_lt_compat_r; [apply bpow_gt_0|]. apply Rlt_le_trans with (IZR (2 ^ 53)); [apply IZR_lt; lia|simpl; lra].
    + rewrite <- bpow_plus. apply bpow_le. lia. }
  generalize (Bldexp_correct prec emax Hprec Hmax mode_NE (Prim2B pm) e). simpl round_mode.
  rewrite Rlt_bool_true by exact Hb.
  intros (A & B & _). split; [exact (eq_trans A Er)|exact (eq_trans B Fpm)].
Qed.

Lemma encode (s : bool) (m : positive) (e : Z) : (Zpos m < 2 ^ 53)%Z -> (-1074 <= e <= 971)%Z ->
  fin (SF2Prim (S754_finite s m e)) /\ R_of (SF2Prim (S754_finite s m e)) = F2R (Float radix2 (cond_Zopp s (Zpos m)) e).
Proof.
  intros Hm He. cbn [SF2Prim]. destruct (enc_pm m Hm) as [Epm Fpm].
  destruct (enc_ldexp _ m e Hm He Epm Fpm) as [Ef Ff]. set (f := Z.ldexp (of_uint63 (of_Z (Zpos m))) e) in *. clearbody f.
  destruct s; cbn [cond_Zopp].
  - destruct (opp_R f) as [Eo Fo]. split; [apply Fo; exact Ff|]. rewrite Eo. unfold R_of. rewrite Ef. unfold F2R. cbn [Fnum Fexp]. rewrite opp_IZR. ring.
  - split; [exact Ff|exact Ef].
Qed.

Lemma fin_cases x : fin x -> (exists s, Prim2SF x = S754_zero s) \/ (exists s m e, Prim2SF x = S754_finite s m e).
Proof.
  unfold fin, Prim2B. rewrite is_finite_SF2B. destruct (Prim2SF x) as [s| | |s m e]; cbn [is_finite_SF]; intros H; try discriminate.
  - left. exists s. reflexivity.
  - right. exists s, m, e. reflexivity.
Qed.
Lemma R_of_zero x s : Prim2SF x = S754_zero s -> R_of x = 0.
Proof. intros H. rewrite R_of_SF, H. reflexivity. Qed.
Lemma fzero_signed_R s : R_of (fzero_signed s) = 0 /\ fin (fzero_signed s).
Proof. destruct s; unfold fzero_signed, R_of, fin; split; reflexivity. Qed.

Lemma IZR_pow2 k : (0 <= k)%Z -> IZR (2 ^ k) = bpow radix2 k.
Proof. intros H. rewrite <- (IZR_Zpower radix2 k H). reflexivity. Qed.

Definition sgnz (s : bool) : Z := if s then (-1)%Z else 1%Z.
Lemma cond_Zopp_sgn s z : cond_Zopp s z = (sgnz s * z)%Z.
Proof. destruct s; unfold sgnz, cond_Zopp; ring. Qed.

Lemma Rabs_sgnz s : Rabs (IZR (sgnz s)) = 1.
Proof. rewrite <- abs_IZR. destruct s; reflexivity. Qed.

(* the exact C fmod: a - t b for an integer t, smaller than |b|, with the sign of a *)
Theorem fmod_spec (a b : PrimFloat.float) : fin a -> fin b -> R_of b <> 0 ->
  exists t : Z, fin (fmod_f a b) /\ R_of (fmod_f a b) = R_of a - IZR t * R_of b /\
    Rabs (R_of (fmod_f a b)) < Rabs (R_of b) /\
    (0 <= R_of a -> 0 <= R_of (fmod_f a b)) /\ (R_of a <= 0 -> R_of (fmod_f a b) <= 0).
Proof.
  intros Fa Fb Hb.
  destruct (fin_cases b Fb) as [[sb Eb]|(sb & mb & eb & Eb)]; [exfalso; apply Hb; apply (R_of_zero b sb Eb)|].
  destruct (decode b sb mb eb Eb) as (Rb & Mb & Xb & _).
  assert (Bpos : 0 < Rabs (R_of b)) by (apply Rabs_pos_lt; exact Hb).
  destruct (fin_cases a Fa) as [[sa Ea]|(sa & ma & ea & Ea)].
  - (* a = +-0 *)
    exists 0%Z. unfold fmod_f. rewrite Ea, Eb. rewrite (R_of_zero a sa Ea). split; [exact Fa|]. split; [simpl; ring|]. rewrite Rabs_R0. split; [exact Bpos|]. split; intros _; lra.
  - destruct (decode a sa ma ea Ea) as (Ra & Ma & Xa & _).
    unfold fmod_f. rewrite Ea, Eb.
    set (e := Z.min ea eb). set (A := (Zpos ma * 2 ^ (ea - e))%Z). set (B := (Zpos mb * 2 ^ (eb - e))%Z). set (R := (A mod B)%Z).
    assert (He : (e <= ea /\ e <= eb /\ -1074 <= e <= 971)%Z) by (unfold e; lia).
    assert (Apos : (0 < A)%Z) by (unfold A; apply Z.mul_pos_pos; [lia|apply Z.pow_pos_nonneg; lia]).
    assert (Bp : (0 < B)%Z) by (unfold B; apply Z.mul_pos_pos; [lia|apply Z.pow_pos_nonneg; lia]).
    pose proof (Z.mod_pos_bound A B Bp) as HR. fold R in HR.
    pose proof (Z.div_mod A B ltac:(lia)) as DM. fold R in DM.
    assert (EA : R_of a = IZR (sgnz sa) * IZR A * bpow radix2 e).
    { rewrite Ra. unfold F2R. cbn [Fnum Fexp]. rewrite cond_Zopp_sgn, mult_IZR. unfold A. rewrite mult_IZR, IZR_pow2 by lia.
      replace ea with ((ea - e) + e)%Z at 1 by ring. rewrite bpow_plus. ring. }
    assert (EB : R_of b = IZR (sgnz sb) * IZR B * bpow radix2 e).
    { rewrite Rb. unfold F2R. cbn [Fnum Fexp]. rewrite cond_Zopp_sgn, mult_IZR. unfold B. rewrite mult_IZR, IZR_pow2 by lia.
      replace eb with ((eb - e) + e)%Z at 1 by ring. rewrite bpow_plus. ring. }
    assert (Pe : 0 < bpow radix2 e) by apply bpow_gt_0.
    assert (Ss : forall s, IZR (sgnz s) * IZR (sgnz s) = 1) by (intros []; unfold sgnz; simpl; lra).
    assert (AbsB : Rabs (R_of b) = IZR B * bpow radix2 e).
    { assert (0 <= IZR B) by (apply IZR_le; lia).
      rewrite EB, !Rabs_mult, (Rabs_pos_eq (bpow radix2 e)), (Rabs_pos_eq (IZR B)) by lra.
      rewrite Rabs_sgnz. ring. }
    exists (sgnz sa * sgnz sb * (A / B))%Z.
    assert (Eq : R_of a - IZR (sgnz sa * sgnz sb * (A / B)) * R_of b = IZR (sgnz sa) * IZR R * bpow radix2 e).
    { rewrite EA, EB, !mult_IZR. replace (IZR A) with (IZR B * IZR (A / B) + IZR R) by (rewrite <- mult_IZR, <- plus_IZR, <- DM; reflexivity).
      transitivity (IZR (sgnz sa) * (IZR B * IZR (A / B) + IZR R) * bpow radix2 e - IZR (sgnz sa) * (IZR (sgnz sb) * IZR (sgnz sb)) * IZR (A / B) * IZR B * bpow radix2 e); [ring|].
      rewrite Ss. ring. }
    destruct (Z.eqb_spec R 0) as [R0|R0].
    + destruct (fzero_signed_R sa) as [Ez Fz]. split; [exact Fz|]. rewrite Ez, Eq, R0. split; [simpl; ring|]. rewrite Rabs_R0. split; [exact Bpos|]. split; intros _; lra.
    + assert (Rlt : (Zpos (Z.to_pos R) < 2 ^ 53)%Z).
      { rewrite Z2Pos.id by lia. destruct (Z_le_gt_dec eb ea) as [C|C].
        - assert (e = eb) by (unfold e; lia). assert (B = Zpos mb) by (unfold B; replace (eb - e)%Z with 0%Z by lia; simpl; lia). lia.
        - assert (e = ea) by (unfold e; lia). assert (A = Zpos ma) by (unfold A; replace (ea - e)%Z with 0%Z by lia; simpl; lia).
          assert (R <= A)%Z by (apply Z.mod_le; lia). lia. }
      destruct (encode sa (Z.to_pos R) e Rlt ltac:(lia)) as [Fm Em].
      split; [exact Fm|]. rewrite Em. unfold F2R. cbn [Fnum Fexp]. rewrite cond_Zopp_sgn, mult_IZR, Z2Pos.id by lia.
      split; [rewrite Eq; ring|].
      assert (Rpos : 0 < IZR R) by (apply IZR_lt; lia).
      split.
      * rewrite AbsB, !Rabs_mult, (Rabs_pos_eq (bpow radix2 e)), (Rabs_pos_eq (IZR R)) by lra.
        rewrite Rabs_sgnz, Rmult_1_l. apply Rmult_lt_compat_r; [exact Pe|]. apply IZR_lt. lia.
      * assert (Apz : 0 < IZR A) by (apply IZR_lt; exact Apos).
        rewrite EA. destruct sa; unfold sgnz; simpl; split; intros H; nra.
Qed.
